#!/bin/bash
# ./run.sh <Cxx> quick|thorough     ./run.sh replay <file>     ./run.sh detcheck <Cxx> [runs]
# exit 0 held / 1 VIOLATION / 2 infrastructure
set -u
cd "$(dirname "${BASH_SOURCE[0]}")"
. ./lib.sh

# property -> simulator package, evidence level, quick runs, quick budget s, thorough runs, thorough budget s
table() {
  case "$1" in
    C01) echo "qbftsim exploration 2400 200 60000 1800";;
    C02) echo "qbftsim exploration 2400 200 60000 1800";;
    C06) echo "qbftsim exploration 1200 200 40000 1800";;
    C07) echo "qbftsim exploration 1200 170 40000 1800";;
    C17) echo "qbftsim exploration 6000 150 200000 1200";;
    C11) echo "regsim exploration 1600 150 40000 1500";;
    C12) echo "regsim fault_enumeration 320 150 8000 1500";;
    C04) echo "ekmsim exploration 3000 150 100000 1500";;
    C03) echo "runnersim exploration 1200 170 30000 1500";;
    C05) echo "runnersim exploration 1200 170 30000 1500";;
    C15) echo "runnersim fault_enumeration 8000 150 200000 1500";;
    C10) echo "runnersim exploration 1200 170 30000 1500";;
    C16) echo "dutysim exploration 20000 150 500000 1500";;
    C14) echo "queuesim exploration 40000 120 1500000 1200";;
    C13) echo "elsim exploration 25000 150 260000 1200";;
    C08) echo "valsim exploration 6000 150 120000 1300";;
    C09) echo "valsim exploration 2400 150 30000 1300";;
    *) return 1;;
  esac
}

build() { # $1 = simulator package
  prep_quic || return 2
  gen_gomod || return 2
  mkdir -p "$BIN"
  # built under a private name and renamed: a check that is running keeps its binary
  ( cd harness && $GO build -modfile="$MODF" -o "$BIN/vcheck.$$" ./cmd/vcheck && mv -f "$BIN/vcheck.$$" "$BIN/vcheck" ) || return 2
  ( cd harness && $GO test -modfile="$MODF" -c -tags verif -o "$BIN/$1.test.$$" "./$1/" && mv -f "$BIN/$1.test.$$" "$BIN/$1.test" ) 2> "$BIN/build-$1.$$.log" || { grep -v 'GNU-stack\|deprecated' "$BIN/build-$1.$$.log" | tail -40; rm -f "$BIN/build-$1.$$.log"; return 2; }
  rm -f "$BIN/build-$1.$$.log"
  return 0
}

cmd=${1:-}
case "$cmd" in
  replay)
    f=$2
    prop=$(python3 -c "import json,sys;print(json.load(open(sys.argv[1]))['property'])" "$f") || exit 2
    set -- $(table "$prop") || { echo "INFRA-ERROR unknown property $prop"; exit 2; }
    build "$1" || { echo "INFRA-ERROR build failed"; exit 2; }
    exec "$BIN/vcheck" -mode replay -prop "$prop" -bin "$BIN/$1.test" -replay "$f" -verif "$VERIF_DIR" -out "$OUT"
    ;;
  detcheck)
    prop=$2
    set -- $(table "$prop") "${3:-40}" || { echo "INFRA-ERROR unknown property $prop"; exit 2; }
    build "$1" || { echo "INFRA-ERROR build failed"; exit 2; }
    exec "$BIN/vcheck" -mode det -prop "$prop" -bin "$BIN/$1.test" -runs "$7" -verif "$VERIF_DIR" -out "$OUT"
    ;;
  C*)
    prop=$1; tier=${2:-${VERIF_TIER:-quick}}
    row=$(table "$prop") || { echo "INFRA-ERROR unknown property $prop"; exit 2; }
    set -- $row
    build "$1" || { echo "INFRA-ERROR build failed"; exit 2; }
    if [ "$tier" = thorough ]; then runs=$5; budget=$6; else runs=$3; budget=$4; fi
    runs=${VERIF_RUNS:-$runs}; budget=${VERIF_BUDGET_S:-$budget}
    exec "$BIN/vcheck" -prop "$prop" -tier "$tier" -bin "$BIN/$1.test" -runs "$runs" -budget "$budget" -level "$2" -workers "${VERIF_WORKERS:-16}" -verif "$VERIF_DIR" -out "$OUT"
    ;;
  *) echo "usage: $0 <Cxx> quick|thorough | replay <file> | detcheck <Cxx>"; exit 2;;
esac
