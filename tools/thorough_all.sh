#!/bin/bash
# tools/thorough_all.sh <seed> <ids...> : thorough tier of the given properties one after the other; one summary line each
cd /verif; seed=$1; shift
mkdir -p thorough_logs
for p in "$@"; do
  t0=$(date +%s)
  VERIF_SEED=$seed ./run.sh $p thorough > thorough_logs/$p-seed$seed.log 2>&1; rc=$?
  echo "$(date -u +%FT%TZ) $p seed=$seed exit=$rc wall=$(( $(date +%s)-t0 ))s $(grep -c '^VIOLATION' thorough_logs/$p-seed$seed.log) violations $(grep -c '^KNOWN-FINDING' thorough_logs/$p-seed$seed.log) known | $(grep '^summary' thorough_logs/$p-seed$seed.log | cut -c1-200)" >> thorough_logs/SUMMARY.txt
done
