#!/bin/bash
# tools/verify_seed2.sh <outdir> <pkgdir-for-demo> <pattern> : like verify_seed.sh but with go1.26.8 + patched modfile
# (for demonstrations living in packages that import network/commons)
. /verif/lib.sh
out=$1; pkg=$2; pat=$3
T="$GO test -modfile=/tmp/mf/go.mod -ldflags=-checklinkname=0 -vet=off -count=1"
cd /tmp/mut && git checkout -q -- . && git clean -fdq && git checkout -q $(git -C /repo rev-parse HEAD)
cp $out/*_test.go $pkg/ || exit 3
$T -run "$pat" ./$pkg/ > /tmp/mut.clean.log 2>&1; c=$?
git apply $out/patch.diff || { echo "patch does not apply"; exit 3; }
$T -run "$pat" ./$pkg/ > /tmp/mut.patched.log 2>&1; p=$?
touched=$(git diff --name-only | xargs -n1 dirname | sort -u | sed 's#^#./#')
for f in $out/*_test.go; do rm -f $pkg/$(basename $f); done
pinned=$(for t in $touched; do grep -x "$t" /tmp/seed/pinned_packages.txt; done)
if [ -n "$pinned" ]; then GOTOOLCHAIN=local go test -vet=off -count=1 $pinned 2>&1 | grep -v "GNU-stack\|deprecated\|^#" | tail -3; fi
# the touched packages' own tests with the newer toolchain
$T $touched 2>&1 | grep -v "GNU-stack\|deprecated\|^#" | tail -4
git checkout -q -- . && git clean -fdq
echo "demo clean-exit=$c (want 0) patched-exit=$p (want !=0); touched: $touched"
