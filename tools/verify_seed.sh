#!/bin/bash
# tools/verify_seed.sh <outdir> <pkgdir-for-demo> <go test -run pattern>
# In scratch worktree /tmp/mut: demo must FAIL with patch, PASS without; build + pinned package tests of touched pkgs must pass.
export GOFLAGS=-mod=mod GOPROXY=off GOSUMDB=off
out=$1; pkg=$2; pat=$3
cd /tmp/mut && git checkout -q -- . && git clean -fdq
cp $out/*_test.go $pkg/ || exit 3
go test -vet=off -count=1 -run "$pat" ./$pkg/ > /tmp/mut.clean.log 2>&1; c=$?
git apply $out/patch.diff || { echo "patch does not apply"; exit 3; }
go build ./protocol/... ./eth/... ./ekm/... ./operator/... ./registry/... ./storage/... ./ibft/... 2>&1 | grep -v "quic-go\|^#\|GNU-stack\|deprecated" | head -5
go test -vet=off -count=1 -run "$pat" ./$pkg/ > /tmp/mut.patched.log 2>&1; p=$?
touched=$(git diff --name-only | xargs -n1 dirname | sort -u | sed 's#^#./#')
rm -f $pkg/$(basename $(ls $out/*_test.go | head -1))
for f in $out/*_test.go; do rm -f $pkg/$(basename $f); done
pinned=$(for t in $touched; do grep -x "$t" /tmp/seed/pinned_packages.txt; done)
if [ -n "$pinned" ]; then go test -vet=off -count=1 $pinned 2>&1 | grep -v "GNU-stack\|deprecated\|^#" | tail -5; fi
git checkout -q -- . && git clean -fdq
echo "demo clean-exit=$c (want 0) patched-exit=$p (want !=0); touched: $touched"
