#!/usr/bin/env python3
"""tools/keepseed.py <outdir> <seed-id> <property> <caught-by> <ran> : store a confirmed seeded change under /verif/seeded/<id>/"""
import sys, os, shutil, json, glob
out, sid, prop, caught, ran = sys.argv[1:6]
dst = os.path.join('/verif/seeded', sid)
os.makedirs(dst, exist_ok=True)
shutil.copy(os.path.join(out, 'patch.diff'), dst)
for f in glob.glob(os.path.join(out, '*_test.go')):
    shutil.copy(f, os.path.join(dst, os.path.basename(f) + '.txt'))  # .txt so that no Go tool picks it up here
notes = open(os.path.join(out, 'notes.md')).read() if os.path.exists(os.path.join(out, 'notes.md')) else ''
shutil.copy(os.path.join(out, 'notes.md'), dst) if notes else None
meta = {"property": prop, "source": "independent sub-agent (given only the property text and a scratch worktree)",
        "needs_to_manifest": "see notes.md", "demonstration": [os.path.basename(f) + '.txt' for f in glob.glob(os.path.join(out, '*_test.go'))],
        "confirmed": "demonstration fails with patch.diff applied and passes on clean HEAD in a scratch worktree (tools/verify_seed.sh); touched pinned packages' tests pass with the patch",
        "caught_by": caught, "what_i_ran": ran}
json.dump(meta, open(os.path.join(dst, 'meta.json'), 'w'), indent=1)
print("kept", dst)
