#!/usr/bin/env python3
"""Generates /verif/MANIFEST.json from the table below (kept valid at all times)."""
import json, os, sys
V = os.path.dirname(os.path.dirname(os.path.abspath(__file__)))

CLAIMED = {
 "C14": dict(engine="queuesim", cat="exploration", ref="DESIGN.md §3 C14",
   technique="deterministic simulation: seeded push/pop programs + concurrent producers in a synctest bubble; reference multiset model; porcupine linearizability of recorded histories",
   text="Seeded search over operation programs against the real priorityQueue with a multiset reference model checked after every operation (no loss, no duplicate, filter respected, nil only if nothing admissible, documented coarse priority order) plus conservation at drain; concurrent scenario (2-4 producers, 1 consumer, blocked Pop/Push, context cancellation) recorded as a history and checked for linearizability with porcupine. Sampling, not proof.",
   note="Trusted: reference multiset, filter functions, porcupine. Pop is single-consumer by contract. Interleaving granularity = blocking points (channel ops are atomic). Fake clock via testing/synctest (go1.26.8)."),
}

Q = "deterministic simulation: seeded delivery/timeout/Byzantine schedules over real controllers+instances; "
CLAIMED.update({
 "C01": dict(engine="qbftsim", cat="exploration", ref="DESIGN.md §3 C01",
   technique=Q + "invariant (all reported decisions equal) checked after every step; delta-debugged replay files",
   text="Multi-operator (N=4/7/10/13) simulation of the real QBFT controller and instance with up to f Byzantine puppets drawn from the message grammar (equivocation, selective delivery, stale/forged justifications), arbitrary delivery order, duplication, loss and timeouts at any moment; agreement of every reported decision is checked after every step. Seeded sampling with directed attack scripts, not exhaustive.",
   note="Trusted: simulator transport/timer/store stubs, BLS library, assumption <= f Byzantine. Caught 2/2 independently seeded safety breaks and 2 planted ones; 2 planted 'star' mutants turned out to be masked by redundant checks in the code (see DESIGN.md §9)."),
 "C02": dict(engine="qbftsim", cat="exploration", ref="DESIGN.md §3 C02",
   technique=Q + "independent BLS certificate verifier applied to every reported decision and every stored instance; forged decided messages from a grammar",
   text="Same simulation with 45% forged Byzantine messages (bad aggregate, foreign/zero/duplicate signers, sub-quorum padded lists, root/height/identifier mismatch). Every decision returned by Controller.ProcessMsg and every instance handed to the store is re-verified by an independent certificate verifier (herumi FastAggregateVerify + spec signing root); local decisions additionally need the operator's own value check and a proposal by the round-robin leader.",
   note="Trusted: independent verifier, ssv-spec ComputeSigningRoot, herumi BLS. Runner-level saves are covered by runnersim when built."),
 "C06": dict(engine="qbftsim", cat="exploration", ref="DESIGN.md §3 C06",
   technique=Q + "lock-step refinement against the pinned ssv-spec reference instance after every event (errors, broadcast bytes, decision, timers, state root)",
   text="Every honest operator is a (node instance, ssv-spec reference instance) pair fed identical starts, deliveries, timeouts, Byzantine grammar messages and single-field mutations; all outputs and the protocol state are compared after each event, with and without the node's compaction applied where the runner applies it. Two known findings (compaction of decided instances changes later broadcasts) are listed in known_findings.json.",
   note="Trusted: ssv-spec v0.3.7 instance as the reference; compaction points modelled = after every round-change message. After a known-class divergence on one operator that pair is no longer compared (others are)."),
 "C07": dict(engine="qbftsim", cat="exploration", ref="DESIGN.md §3 C07",
   technique=Q + "bounded liveness: adversarial prefix, then faults stop and up to 18 synchronous continuations are searched; timeout post-conditions checked at every timeout",
   text="After an adversarial prefix (<= f silent or equivocating operators, arbitrary deliveries and timeouts) faults stop and all correct operators must decide within f+3 timeout rounds in at least one of 18 synchronous continuations (9 delivery orders x 2 timeout policies); fault-free in-order runs must decide in round 1 on the leader's value; every timeout must bump the round, clear the proposal, re-arm the timer and announce the round.",
   note="Existential oracle over 18 continuations only; calibrated clean on the unchanged tree. Partial synchrony: loss among correct operators in the prefix = delay."),
})

NOT_YET = {}
ALL = ["C%02d" % i for i in range(1, 19)]
NA = {
 "C18": "pure functions of their byte inputs (topic mapping, envelope codec, subnet bitmap): no schedule, clock, fault or interleaving for a simulator to decide; see DESIGN.md §4",
}

def main():
    checks = []
    for pid in sorted(CLAIMED):
        c = CLAIMED[pid]
        checks.append({
            "property_id": pid,
            "quick_cmd": "./run.sh %s quick" % pid,
            "thorough_cmd": "./run.sh %s thorough" % pid,
            "evidence_file": "/verif/evidence/%s.json" % pid,
            "replay_cmd_template": "./run.sh replay {path}",
            "engine": c["engine"],
            "level_claimed": {"category": c["cat"], "text": c["text"], "design_ref": c["ref"]},
            "level_note": c["note"],
            "technique": c["technique"],
        })
    na = []
    for pid in ALL:
        if pid in CLAIMED: continue
        na.append({"property_id": pid, "reason": NA.get(pid, "not claimed yet: the simulator for this property is not built / not calibrated at this commit (see DESIGN.md §10 build order)")})
    engines = {}
    for pid, c in CLAIMED.items():
        engines.setdefault(c["engine"], []).append(pid)
    hooks_commits = [l.strip() for l in open(os.path.join(V, "tools", "hook_commits.txt"))] if os.path.exists(os.path.join(V, "tools", "hook_commits.txt")) else []
    m = {
        "version": 1,
        "setup_cmd": "./setup.sh",
        "hooks": {
            "guard": "verif (Go build tag)",
            "enable": "checks build the harness module (replace github.com/bloxapp/ssv => /repo) with `go test -c -tags verif` under GOTOOLCHAIN=local go1.26.8",
            "baseline_off_cmd": "cd /repo && GOFLAGS=-mod=mod GOPROXY=off GOSUMDB=off go test -vet=off -count=1 -timeout 25m ./...",
            "source_commits": hooks_commits,
            "add_only": len(hooks_commits) == 0,
        },
        "engines": [{"name": k, "path": "/verif/harness/" + k, "serves_properties": sorted(v),
                     "kind_free_text": "deterministic simulator (Go test binary driven by cmd/vcheck); seeded programs, fault injection, replay files"} for k, v in sorted(engines.items())],
        "checks": checks,
        "notes": "Technique family: deterministic simulation with fault injection. ./run.sh <id> quick|thorough; ./run.sh replay <file>; ./run.sh detcheck <id>. Exit 2 = infrastructure trouble, never a VIOLATION. Known findings: /verif/known_findings.json.",
        "not_applicable": na,
    }
    json.dump(m, open(os.path.join(V, "MANIFEST.json"), "w"), indent=1)
    print("MANIFEST.json written: %d checks, %d not_applicable" % (len(checks), len(na)))

main()
