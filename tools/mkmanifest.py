#!/usr/bin/env python3
"""Generates /verif/MANIFEST.json from the table below (kept valid at all times)."""
import json, os, sys
V = os.path.dirname(os.path.dirname(os.path.abspath(__file__)))

CLAIMED = {
 "C14": dict(engine="queuesim", cat="exploration", ref="DESIGN.md §3 C14",
   technique="deterministic simulation: seeded push/pop programs + concurrent producers in a synctest bubble; reference multiset model; porcupine linearizability of recorded histories",
   text="Seeded search over operation programs against the real priorityQueue with a multiset reference model checked after every operation (no loss, no duplicate, filter respected, nil only if nothing admissible, documented coarse priority order) plus conservation at drain; concurrent scenario (2-4 producers, 1 consumer, blocked Pop/Push, context cancellation) recorded as a history and checked for linearizability with porcupine. Sampling, not proof.",
   note="Trusted: reference multiset, filter functions, porcupine. Pop is single-consumer by contract. Interleaving granularity = blocking points (channel ops are atomic). Fake clock via testing/synctest (go1.26.8)."),
}

NOT_YET = {}
ALL = ["C%02d" % i for i in range(1, 19)]
NA = {
 "C18": "pure functions of their byte inputs (topic mapping, envelope codec, subnet bitmap): no schedule, clock, fault or interleaving for a simulator to decide; see DESIGN.md §4",
}

def main():
    checks = []
    for pid in sorted(CLAIMED):
        c = CLAIMED[pid]
        checks.append({
            "property_id": pid,
            "quick_cmd": "./run.sh %s quick" % pid,
            "thorough_cmd": "./run.sh %s thorough" % pid,
            "evidence_file": "/verif/evidence/%s.json" % pid,
            "replay_cmd_template": "./run.sh replay {path}",
            "engine": c["engine"],
            "level_claimed": {"category": c["cat"], "text": c["text"], "design_ref": c["ref"]},
            "level_note": c["note"],
            "technique": c["technique"],
        })
    na = []
    for pid in ALL:
        if pid in CLAIMED: continue
        na.append({"property_id": pid, "reason": NA.get(pid, "not claimed yet: the simulator for this property is not built / not calibrated at this commit (see DESIGN.md §10 build order)")})
    engines = {}
    for pid, c in CLAIMED.items():
        engines.setdefault(c["engine"], []).append(pid)
    hooks_commits = [l.strip() for l in open(os.path.join(V, "tools", "hook_commits.txt"))] if os.path.exists(os.path.join(V, "tools", "hook_commits.txt")) else []
    m = {
        "version": 1,
        "setup_cmd": "./setup.sh",
        "hooks": {
            "guard": "verif (Go build tag)",
            "enable": "checks build the harness module (replace github.com/bloxapp/ssv => /repo) with `go test -c -tags verif` under GOTOOLCHAIN=local go1.26.8",
            "baseline_off_cmd": "cd /repo && GOFLAGS=-mod=mod GOPROXY=off GOSUMDB=off go test -vet=off -count=1 -timeout 25m ./...",
            "source_commits": hooks_commits,
            "add_only": len(hooks_commits) == 0,
        },
        "engines": [{"name": k, "path": "/verif/harness/" + k, "serves_properties": sorted(v),
                     "kind_free_text": "deterministic simulator (Go test binary driven by cmd/vcheck); seeded programs, fault injection, replay files"} for k, v in sorted(engines.items())],
        "checks": checks,
        "notes": "Technique family: deterministic simulation with fault injection. ./run.sh <id> quick|thorough; ./run.sh replay <file>; ./run.sh detcheck <id>. Exit 2 = infrastructure trouble, never a VIOLATION. Known findings: /verif/known_findings.json.",
        "not_applicable": na,
    }
    json.dump(m, open(os.path.join(V, "MANIFEST.json"), "w"), indent=1)
    print("MANIFEST.json written: %d checks, %d not_applicable" % (len(checks), len(na)))

main()
