#!/usr/bin/env python3
"""Generates /verif/MANIFEST.json from the table below (kept valid at all times)."""
import json, os, sys
V = os.path.dirname(os.path.dirname(os.path.abspath(__file__)))

CLAIMED = {
 "C14": dict(engine="queuesim", cat="exploration", ref="DESIGN.md §3 C14",
   technique="deterministic simulation: seeded push/pop programs + concurrent producers in a synctest bubble; reference multiset model; porcupine linearizability of recorded histories",
   text="Seeded search over operation programs against the real priorityQueue with a multiset reference model checked after every operation (no loss, no duplicate, filter respected, nil only if nothing admissible, documented coarse priority order) plus conservation at drain; concurrent scenario (2-4 producers, 1 consumer, blocked Pop/Push, context cancellation) recorded as a history and checked for linearizability with porcupine. Sampling, not proof.",
   note="Trusted: reference multiset, filter functions, porcupine. Pop is single-consumer by contract. Interleaving granularity = blocking points (channel ops are atomic). Fake clock via testing/synctest (go1.26.8)."),
}

Q = "deterministic simulation: seeded delivery/timeout/Byzantine schedules over real controllers+instances; "
CLAIMED.update({
 "C01": dict(engine="qbftsim", cat="exploration", ref="DESIGN.md §3 C01",
   technique=Q + "invariant (all reported decisions equal) checked after every step; delta-debugged replay files",
   text="Multi-operator (N=4/7/10/13) simulation of the real QBFT controller and instance with up to f Byzantine puppets drawn from the message grammar (equivocation, selective delivery, stale/forged justifications), arbitrary delivery order, duplication, loss and timeouts at any moment; agreement of every reported decision is checked after every step. Seeded sampling with directed attack scripts, not exhaustive.",
   note="Trusted: simulator transport/timer/store stubs, BLS library, assumption <= f Byzantine. Caught 2/2 independently seeded safety breaks and 2 planted ones; 2 planted 'star' mutants turned out to be masked by redundant checks in the code (see DESIGN.md §9)."),
 "C02": dict(engine="qbftsim", cat="exploration", ref="DESIGN.md §3 C02",
   technique=Q + "independent BLS certificate verifier applied to every reported decision and every stored instance; forged decided messages from a grammar",
   text="Same simulation with 45% forged Byzantine messages (bad aggregate, foreign/zero/duplicate signers, sub-quorum padded lists, root/height/identifier mismatch). Every decision returned by Controller.ProcessMsg and every instance handed to the store is re-verified by an independent certificate verifier (herumi FastAggregateVerify + spec signing root); local decisions additionally need the operator's own value check and a proposal by the round-robin leader.",
   note="Trusted: independent verifier, ssv-spec ComputeSigningRoot, herumi BLS. Runner-level saves are covered by runnersim when built."),
 "C06": dict(engine="qbftsim", cat="exploration", ref="DESIGN.md §3 C06",
   technique=Q + "lock-step refinement against the pinned ssv-spec reference instance after every event (errors, broadcast bytes, decision, timers, state root)",
   text="Every honest operator is a (node instance, ssv-spec reference instance) pair fed identical starts, deliveries, timeouts, Byzantine grammar messages and single-field mutations; all outputs and the protocol state are compared after each event, with and without the node's compaction applied where the runner applies it. Two known findings (compaction of decided instances changes later broadcasts) are listed in known_findings.json.",
   note="Trusted: ssv-spec v0.3.7 instance as the reference; compaction points modelled = after every round-change message. After a known-class divergence on one operator that pair is no longer compared (others are)."),
 "C07": dict(engine="qbftsim", cat="exploration", ref="DESIGN.md §3 C07",
   technique=Q + "bounded liveness: adversarial prefix, then faults stop and up to 18 synchronous continuations are searched; timeout post-conditions checked at every timeout",
   text="After an adversarial prefix (<= f silent or equivocating operators, arbitrary deliveries and timeouts) faults stop and all correct operators must decide within f+3 timeout rounds in at least one of 18 synchronous continuations (9 delivery orders x 2 timeout policies); fault-free in-order runs must decide in round 1 on the leader's value; every timeout must bump the round, clear the proposal, re-arm the timer and announce the round.",
   note="Existential oracle over 18 continuations only; calibrated clean on the unchanged tree. Partial synchrony: loss among correct operators in the prefix = delay."),
})

CLAIMED.update({
 "C04": dict(engine="ekmsim", cat="exploration", ref="DESIGN.md §3 C04",
   technique="deterministic simulation: seeded key-manager histories with restarts, crash/error injection at the k-th storage call and a fake clock; history oracle over every released signature",
   text="Seeded histories of add/remove/re-add share, reactivation bump, attestation and block signing at or below the clock, clock advances, restarts on the same database, operations interrupted at any storage call (crash before/after, storage error) and deleted/corrupted protection records against the real ekm + eth2-key-manager signer; every released signature is judged against the whole life of the share (double vote, surround, double proposal, signing without a readable record). One run in five is the concurrent scenario: two overlapping signing requests (two attestations for one target, two blocks for one slot, attestation+block, two shares) as real goroutines that park at every storage call, interleaved from the step's sub-seed by a lock-aware scheduler. New fault kind: reads keep failing while writes succeed. Level is exploration (fault points and interleavings are sampled, not enumerated).",
   note="On the unchanged tree two overlapping requests of the same kind for one share deadlock inside the eth2-key-manager dependency (nothing is released: diagnostic probe, the goroutines are abandoned and the node restarted); the concurrent scenario therefore runs outside the synctest bubble with a clock injected through the key manager's BeaconNetwork dependency. Trusted: fake clock, MemDB stub (real in-memory Badger in 1/6 of the sequential runs), history oracle, goroutine wait reasons from runtime.Stack."),
 "C11": dict(engine="regsim", cat="exploration", ref="DESIGN.md §3 C11",
   technique="deterministic simulation: seeded contract-event logs through the real event handler; executable reference model of the registration rules; re-partitioning and restart comparison",
   text="Seeded sequences of all 8 registry events (ValidatorAdded valid or malformed in exactly one of 12 ways) ABI-encoded and fed through HandleBlockEventsStream; after every block the node's state through its getters must equal a reference model written from the statement, a freshly booted node on the same database must show the same, and the same log re-partitioned into blocks must end in the same database.",
   note="Trusted: reference model, ABI log builder, MemDB stub (Badger in 1/7 runs). Log respects contract guarantees (unique increasing operator ids)."),
 "C12": dict(engine="regsim", cat="fault_enumeration", ref="DESIGN.md §3 C12",
   technique="deterministic simulation: crash/error enumeration over every storage call of block processing (incl. key-manager and cleanup writes outside the transaction), restart on surviving state, comparison with the uninterrupted run",
   text="Per generated block sequence an uninterrupted counting run fixes the M interruption points; each chosen point x {crash before, crash after, storage error} is executed with restart on the surviving database and resumption from last processed + 1; final registry state, nonces and usable/stored key shares must equal the uninterrupted run. Exhaustive over all points for short sequences, biased sampling otherwise.",
   note="Every run also ends with a stale log-less block (must be refused), a restart and a comparison. Durable state = committed database writes (process crash). One class of known finding (orphan account record of the third-party wallet) is listed; two genuine defects were repaired (fix: commits)."),
 "C13": dict(engine="elsim", cat="exploration", ref="DESIGN.md §3 C13",
   technique="deterministic simulation: real ExecutionClient + go-ethereum rpc client against an in-memory fake node over net.Pipe in a synctest bubble; seeded heads, connection drops, request failures; history oracle",
   text="The real StreamLogs / FetchHistoricalLogs / reconnect / PackLogs and the real ethclient run against a generated chain served by go-ethereum's rpc.Server over net.Pipe; heads, idle drops, drops instead of replies, getLogs and subscribe failures, refused dials and fake-time back-off are injected one at a time; the delivered BlockLogs history is checked for order, completeness, exact content and range, plus bounded liveness after faults stop.",
   note="Failed eth_getLogs calls are answered with a rotation of realistic provider error texts. One guarded hook (dial indirection, build tag verif). Request fault points sampled, no reorgs. A genuine cursor defect was repaired (fix: commit)."),
 "C16": dict(engine="dutysim", cat="exploration", ref="DESIGN.md §3 C16",
   technique="deterministic simulation: real duty scheduler + handlers + slot ticker on a fake clock (synctest), scripted beacon node with changing assignments, reorg / indices-change / fetch-failure injection; three-valued reference",
   text="Real duties.Scheduler with attester, proposer and sync-committee handlers runs several epochs across a sync-committee period boundary under head events implying reorgs, indices changes, failing, slow and hung fetches; every ExecuteDuties call is judged against a MUST / MUST-NOT / MAY reference written from the statement (no double dispatch, only during the duty's slot, never absent from the latest fetched assignment, always when fetched in time).",
   note="Leniencies (invalidated-but-not-refetched = MAY, ticks spent inside a beacon call) are listed in the evidence assumptions; lost epochs after certain reorgs are reported as diagnostics only (outside the statement)."),
 "C17": dict(engine="qbftsim", cat="exploration", ref="DESIGN.md §3 C17",
   technique="deterministic simulation: real RoundTimer under the synctest fake clock with seeded arm/advance/re-arm/cancel programs; stale and duplicate timeout events injected at the real controller",
   text="Seeded programs of arm(increasing rounds)/advance/advance-to-deadline+-2ms/handler swap/cancel/burst re-arm against the real RoundTimer for all roles, callbacks judged with fake timestamps (once per arming, only the latest round, not before the documented deadline); fault-free multi-operator runs with lower-round, other-height, decided-instance and duplicate timeout events at Controller.OnTimeout which must change nothing.",
   note="Every consensus scenario ends by starting the next height and delivering the timeout event queued for the force-stopped instance (must be inert). Deadline formula written from the documented rule. Burst re-arm is judged over 16 trials with one P because a defective timer's outcome depends on the runtime's select choice."),
})

R = "deterministic simulation: real validators + duty runners + QBFT of a whole committee driven step by step (start duty, deliveries in any order, duplicates, re-addressed and stale messages, timeouts, faulty members); "
CLAIMED.update({
 "C03": dict(engine="runnersim", cat="exploration", ref="DESIGN.md §3 C03",
   technique=R + "oracle on every key-manager signing call (spy) and every partial-signature broadcast",
   text="4 (7) real Validators with real runners for the 5 consensus roles; every SignBeaconObject call is judged: pre-consensus proofs only inside the start of that duty and bound to its slot; post-consensus objects only after a quorum certificate for the duty's height reached the operator, contained in the certified value, value passes the role's (operator-local) validity check, at most once; every broadcast partial signature must stem from such a call. Directed macros (straggler, blackout, equivocating round-1 leader) reach eviction, late-decided and conflicting-proposal paths.",
   note="Decision certification is tracked by the simulator from valid commit/decided messages delivered (over-approximation). Key manager = spy around the spec test signer without slashing protection; one 'picky' operator has an operator-local attestation check."),
 "C05": dict(engine="runnersim", cat="exploration", ref="DESIGN.md §3 C05",
   technique=R + "independent BLS verification at every BeaconNode.Submit* and of every reconstructed pre-consensus signature; bounded liveness after deliveries complete",
   text="Committees of 4/7/10/13; consensus mostly on the honest path, the schedule explores arrival orders of pre/post-consensus partial signatures with <= f members sending garbage, wrong-root, wrong-key or truncated signatures (one bad root among good ones, good-then-bad, bad-then-good, duplicates). Every object handed to the beacon node must verify under the validator key (herumi), be the operator's decided object and be submitted once; after all deliveries an operator that received 2f+1 correct shares must have submitted.",
   note="Beacon node is a scripted stub that verifies signatures itself. Liveness judged at message granularity for multi-root duties."),
 "C15": dict(engine="runnersim", cat="fault_enumeration", ref="DESIGN.md §3 C15",
   technique="deterministic simulation: one operator's real runner + controller + ibft storage behind a fault-injecting database; seeded duty starts, local decisions, decided certificates for past/current/future heights and rounds, restarts and crash/error injection at the k-th storage call; reference model of the highest started/decided height",
   text="StartDuty for a slot at or below the highest started or decided height must be refused (no instance, no broadcast), also after restart (the highest decided must survive); the stored highest decided and every stored height must never regress in (height, signer count). One run in four is a proposer duty (pre-consensus phase: the RANDAO quorum may complete after a decided certificate for the height was processed - consensus must then not start); one step lets two other validators save their highest decided instance through the shared per-role store at the same time (two goroutines parked at every storage call, released in a prescribed order) and reads both back. Crash points are sampled per operation (k-th storage call x before/after/error). Four known findings (compaction across rounds, swallowed read error, decided-below-running-height not recorded) are listed in known_findings.json.",
   note="The simulator plays the rest of the committee with the real share keys (one value per height, so certificates never conflict). Durable state = committed writes."),
})

CLAIMED.update({
 "C10": dict(engine="runnersim", cat="exploration", ref="DESIGN.md §3 C10",
   technique="deterministic simulation: whole committees (4, 7) of real validators + runners + QBFT in discrete-event simulated time; every broadcast passes the receiving peer's real message validator at its simulated arrival time and the real validator queue; round timers fire at the deadline the real RoundTimer computes; omission-faulty operators and connectivity outages injected from the step program",
   text="All 7 roles, 1-3 slots, per-link latency 1..250 ms, per-operator duty start lag; three fault modes (fault-free FIFO; <= f omission-faulty operators withholding chosen message kinds from chosen peers; additionally outages of arbitrary operator sets, which reach rounds up to 12 with prepared-value round changes and justified proposals; directed schedules 'lone-prepared' and 're-lead' build the states in which one operator alone holds a prepared value or the round-1 leader leads again with another value). Oracle at every (message emitted by a correct operator's real code, correct receiving peer incl. a non-committee observer): verdict is never reject; in fault-free runs every verdict is accept. The signed-envelope (RSA) layer runs in three settings (never, always, activating at the next epoch boundary). One defect repaired (fix: b14331bc3), four known findings (five signatures) listed in known_findings.json.",
   note="A correct peer is assumed to know the validator's share and duties. p2pNetwork.Broadcast's envelope step (6 lines) is re-implemented in the transport stub with the real operator keys. The consumer loop of the validator queue (state, filter) is re-implemented around the real queue and prioritizer. Lost messages are never delivered late."),
})

VT = "deterministic simulation: the real message validator with real node storage, duty store and operator RSA keys under the synctest fake clock, fed by real QBFT controllers (honest traffic of committees of 4/7/10/13) and by a Byzantine input generator; "
CLAIMED.update({
 "C08": dict(engine="valsim", cat="exploration", ref="DESIGN.md §3 C08, §11.7",
   technique=VT + "every call guarded: recovered panic, real-time and allocation bound",
   text="Seeded programs interleave slot/time advance, duties, honest gossip (which builds per-signer history), round timeouts and injections: raw bytes at four nesting depths, byte-level mutations of honest messages with re-signed envelopes, structurally valid messages with boundary field values (round 0 / 2^63 / 2^64-1, height 0 / max, 0 / 14 / unsorted / duplicate signers, unknown types and roles, truncated and oversize justifications, data up to 9 MiB) and, after every accepted honest message, the messages derived from it (replay, other root, earlier slot or round, second proposal with other / longer / shorter data) on right and wrong topics for known, unknown, liquidated, exited and metadata-less validators, through ValidatePubsubMessage and ValidateSSVMessage; a share of each run feeds mutated inputs to the 9 standalone decoders (seeded input mutation only - they have no schedule). One defect repaired (fix: dc64b1189).",
   note="A call that never returns cannot become a violation record: an out-of-bubble watchdog prints the input and the worker times out (exit 2). Go-heap allocations only. Concurrent validation is not simulated. Simulator written by a builder sub-agent, reviewed and re-run by me."),
 "C09": dict(engine="valsim", cat="exploration", ref="DESIGN.md §3 C09, §11.7",
   technique=VT + "reference rule predicate on every accepted message and single-rule mutants of every honest message",
   text="Oracle 1: every ACCEPTED message is judged by a reference predicate written from the statement (own validator and operator-key tables, topic, leader, quorum and window arithmetic with wider windows than the implementation's, stdlib RSA, own per-signer record). Oracle 2: before every honest message up to 32 single-rule mutants of it, and after its acceptance 6 history mutants, are gossiped with correctly re-signed envelopes; a mutant the reference confirms as rule-breaking must not be accepted (about 2 million mutants per quick run). Two defects repaired (fix: f17d666b5, f763c0541), one known finding (partial-signature messages have no slot window, two signatures).",
   note="Concurrent validation is covered at one seam only: pairs of messages validated by two goroutines that park at the operator-key lookup (between the per-signer check and update), interleaved by a lock-aware scheduler; removing the per-message-id lock is caught. BLS message signatures are not a gossip rule of the statement and are not judged. Simulator written by a builder sub-agent, reviewed and re-run by me."),
})

NOT_YET = {}
ALL = ["C%02d" % i for i in range(1, 19)]
NA = {
 "C18": "pure functions of their byte inputs (topic mapping, envelope codec, subnet bitmap): no schedule, clock, fault or interleaving for a simulator to decide; see DESIGN.md §4",
}

def main():
    checks = []
    for pid in sorted(CLAIMED):
        c = CLAIMED[pid]
        checks.append({
            "property_id": pid,
            "quick_cmd": "./run.sh %s quick" % pid,
            "thorough_cmd": "./run.sh %s thorough" % pid,
            "evidence_file": "/verif/evidence/%s.json" % pid,
            "replay_cmd_template": "./run.sh replay {path}",
            "engine": c["engine"],
            "level_claimed": {"category": c["cat"], "text": c["text"], "design_ref": c["ref"]},
            "level_note": c["note"],
            "technique": c["technique"],
        })
    na = []
    for pid in ALL:
        if pid in CLAIMED: continue
        na.append({"property_id": pid, "reason": NA.get(pid, "not claimed yet: the simulator for this property is not built / not calibrated at this commit (see DESIGN.md §10 build order)")})
    engines = {}
    for pid, c in CLAIMED.items():
        engines.setdefault(c["engine"], []).append(pid)
    hooks_commits = [l.strip() for l in open(os.path.join(V, "tools", "hook_commits.txt"))] if os.path.exists(os.path.join(V, "tools", "hook_commits.txt")) else []
    m = {
        "version": 1,
        "setup_cmd": "./setup.sh",
        "hooks": {
            "guard": "verif (Go build tag)",
            "enable": "checks build the harness module (replace github.com/bloxapp/ssv => /repo) with `go test -c -tags verif` under GOTOOLCHAIN=local go1.26.8",
            "baseline_off_cmd": "cd /repo && GOFLAGS=-mod=mod GOPROXY=off GOSUMDB=off go test -vet=off -count=1 -timeout 25m ./...",
            "source_commits": hooks_commits,
            "add_only": len(hooks_commits) == 0,
        },
        "engines": [{"name": k, "path": "/verif/harness/" + k, "serves_properties": sorted(v),
                     "kind_free_text": "deterministic simulator (Go test binary driven by cmd/vcheck); seeded programs, fault injection, replay files"} for k, v in sorted(engines.items())],
        "checks": checks,
        "notes": "Technique family: deterministic simulation with fault injection. ./run.sh <id> quick|thorough; ./run.sh replay <file>; ./run.sh detcheck <id>. Exit 2 = infrastructure trouble, never a VIOLATION. Known findings: /verif/known_findings.json.",
        "not_applicable": na,
    }
    json.dump(m, open(os.path.join(V, "MANIFEST.json"), "w"), indent=1)
    print("MANIFEST.json written: %d checks, %d not_applicable" % (len(checks), len(na)))

main()
