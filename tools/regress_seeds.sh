#!/bin/bash
# tools/regress_seeds.sh [ids...] : every kept seed against the quick tier of its property, through a scratch worktree
cd /verif; mkdir -p thorough_logs
ids=${@:-$(ls seeded)}
for id in $ids; do
  prop=${id%%-*}
  cd /tmp/mut && git checkout -q -- . && git clean -fdq && git checkout -q $(git -C /repo rev-parse HEAD) && git apply /verif/seeded/$id/patch.diff 2>/dev/null || { echo "$id apply-failed" >> /verif/thorough_logs/SEEDS.txt; continue; }
  cd /verif && VERIF_REPO=/tmp/mut ./run.sh $prop quick > /tmp/regress.$id.log 2>&1; rc=$?
  echo "$(date -u +%T) $id exit=$rc $(grep -c '^VIOLATION' /tmp/regress.$id.log) violations: $(grep 'signature=' /tmp/regress.$id.log | sed 's/seed=.*//' | sort | uniq -c | sort -rn | head -2 | tr '\n' ';' | cut -c1-200)" >> /verif/thorough_logs/SEEDS.txt
done
cd /tmp/mut && git checkout -q -- . && git clean -fdq
