#!/bin/bash
# tools/tryseed.sh <patch.diff> <cmd...> : apply a seeded change to /repo, run a check, undo it.
p=$1; shift
git -C /repo status --short | grep -q . && { echo "/repo not clean"; exit 3; }
git -C /repo apply "$p" || { echo "patch does not apply"; exit 3; }
( cd /verif && "$@" ); rc=$?
git -C /repo checkout -- . ; git -C /repo clean -fdq
echo "exit=$rc"
exit $rc
