//go:build go1.21

package qtls

// verif: emptied (deliberate compile error for Go >= 1.21 removed; QUIC is never executed)
