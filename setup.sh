#!/bin/bash
# MANIFEST.setup_cmd: build the framework from files on disk only (offline).
set -e
cd "$(dirname "${BASH_SOURCE[0]}")"
. ./lib.sh
prep_quic
gen_gomod
mkdir -p "$BIN" evidence replays
( cd harness && $GO build -o "$BIN/vcheck" ./cmd/vcheck )
# warm the build cache for every simulator package
for p in $(cd harness && ls -d *sim 2>/dev/null); do
  [ "$p" = sim ] && continue
  ( cd harness && $GO test -c -tags verif -o "$BIN/$p.test" "./$p/" ) 2>&1 | grep -v 'GNU-stack\|deprecated' || true
done
echo "setup ok"
