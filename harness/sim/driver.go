package sim

import (
	"crypto/sha256"
	"encoding/hex"
	"encoding/json"
	"fmt"
	"hash"
	"hash/fnv"
	"os"
	"sort"
	"time"
)

// Step is one explicit, self-contained program step. Arguments that index dynamic sets are
// taken modulo the set size by the simulators and a step whose precondition is false is a
// no-op, so any sub-sequence of a program is a program.
type Step struct {
	Op string   `json:"op"`
	A  []int64  `json:"a,omitempty"`
	S  []string `json:"s,omitempty"`
}

func (s Step) Arg(i int) int64 {
	if i < len(s.A) {
		return s.A[i]
	}
	return 0
}

func (s Step) Str(i int) string {
	if i < len(s.S) {
		return s.S[i]
	}
	return ""
}

func St(op string, a ...int64) Step { return Step{Op: op, A: a} }

// Config is the per-run configuration drawn from the seed (swarm style).
type Config map[string]int64

func (c Config) Get(k string, def int64) int64 {
	if v, ok := c[k]; ok {
		return v
	}
	return def
}

type Violation struct {
	Invariant string `json:"invariant"`
	Signature string `json:"signature"`
	Text      string `json:"text"`
	AtStep    int    `json:"at_step"`
}

// ReplayFile is the artefact written for every violation.
type ReplayFile struct {
	Property   string     `json:"property"`
	Sim        string     `json:"sim"`
	Seed       uint64     `json:"seed"`
	Config     Config     `json:"config"`
	Steps      []Step     `json:"steps"`
	Violation  *Violation `json:"violation"`
	EventLog   string     `json:"event_log_sha256"`
	Minimised  bool       `json:"minimised"`
	OrigSteps  int        `json:"orig_steps"`
	ReplayCmd  string     `json:"replay_cmd,omitempty"`
	TailOfLog  []string   `json:"tail_of_log,omitempty"`
	FaultsSeen Counts     `json:"faults_fired,omitempty"`
}

type Counts map[string]int64

func (c Counts) Add(o Counts) {
	for k, v := range o {
		c[k] += v
	}
}

// D drives one run: it is the choice source (generation) or the step source (replay), the event
// log, and the collector of faults / probes / abstract states for the evidence.
type D struct {
	Prop string
	Tier string
	Seed uint64
	Cfg  Config

	Rng    *Rand // nil while replaying
	replay []Step
	pos    int

	Steps []Step // steps executed so far (generated or replayed)

	logH     hash.Hash
	tail     []string
	KeepLog  bool
	Lines    []string
	traceSig uint64
	States   map[uint64]struct{}
	Faults   Counts
	Probes   Counts
	Nontriv  bool
	SimTime  time.Duration
	V        *Violation
	Discard  string // non-empty: run discarded (reason), not counted as covered
	// Findings: property violations of a class the simulator can contain (it stops comparing the
	// affected component and lets the run continue). They are reported exactly like violations —
	// VIOLATION unless the exact (invariant, signature) is listed in known_findings.json.
	Findings []Violation
	MaxSteps int
}

func newD(prop, tier string, seed uint64) *D {
	return &D{Prop: prop, Tier: tier, Seed: seed, logH: sha256.New(), States: map[uint64]struct{}{},
		Faults: Counts{}, Probes: Counts{}, MaxSteps: 100000, traceSig: 1469598103934665603}
}

// NewGenD creates a generating driver for a seed.
func NewGenD(prop, tier string, seed uint64) *D {
	d := newD(prop, tier, seed)
	d.Rng = NewRand(seed)
	return d
}

// NewReplayD creates a replaying driver (no PRNG at all).
func NewReplayD(prop, tier string, seed uint64, cfg Config, steps []Step) *D {
	d := newD(prop, tier, seed)
	d.Cfg = cfg
	d.replay = steps
	return d
}

func (d *D) Replaying() bool { return d.Rng == nil }

// Next returns the next step: generated online by gen (which may look at simulator state) or
// taken from the replay list. ok=false ends the program.
func (d *D) Next(gen func(r *Rand) *Step) (Step, bool) {
	if d.V != nil || len(d.Steps) >= d.MaxSteps {
		return Step{}, false
	}
	if d.Replaying() {
		if d.pos >= len(d.replay) {
			return Step{}, false
		}
		s := d.replay[d.pos]
		d.pos++
		d.Steps = append(d.Steps, s)
		return s, true
	}
	s := gen(d.Rng)
	if s == nil {
		return Step{}, false
	}
	d.Steps = append(d.Steps, *s)
	return *s, true
}

// Logf appends to the event log. Never draws choices, never reads a real clock.
func (d *D) Logf(format string, a ...any) {
	line := fmt.Sprintf(format, a...)
	d.logH.Write([]byte(line))
	d.logH.Write([]byte{'\n'})
	if d.KeepLog {
		d.Lines = append(d.Lines, line)
	}
	if len(d.tail) >= 40 {
		d.tail = d.tail[1:]
	}
	d.tail = append(d.tail, line)
}

func (d *D) LogHash() string { return hex.EncodeToString(d.logH.Sum(nil)) }

func h64(s string) uint64 {
	h := fnv.New64a()
	h.Write([]byte(s))
	return h.Sum64()
}

// State records the abstract state after a step: folded into the trace signature (distinct
// interleavings) and into the distinct-state set.
func (d *D) State(actor, kind, abs string) {
	d.traceSig = (d.traceSig ^ h64(actor+"|"+kind+"|"+abs)) * 1099511628211
	if len(d.States) < 20000 {
		d.States[h64(abs)] = struct{}{}
	}
}

func (d *D) TraceSig() uint64 { return d.traceSig }

func (d *D) Fault(kind string) { d.Faults[kind]++ }
func (d *D) Probe(name string) { d.Probes[name]++ }

// Finding records a containable violation (first per signature); the run continues.
func (d *D) Finding(invariant, signature, format string, a ...any) {
	for _, f := range d.Findings {
		if f.Invariant == invariant && f.Signature == signature {
			return
		}
	}
	v := Violation{Invariant: invariant, Signature: signature, Text: fmt.Sprintf(format, a...), AtStep: len(d.Steps)}
	d.Findings = append(d.Findings, v)
	d.Logf("FINDING %s %s %s", invariant, signature, v.Text)
}

// Outcome is what the run reports: the violation if any, else the first finding.
func (d *D) Outcome() *Violation {
	if d.V != nil {
		return d.V
	}
	if len(d.Findings) > 0 {
		return &d.Findings[0]
	}
	return nil
}

// has reports whether the run produced (invariant, signature) as violation or finding.
func (d *D) has(inv, sig string) *Violation {
	if d.V != nil && d.V.Invariant == inv && d.V.Signature == sig {
		return d.V
	}
	for i := range d.Findings {
		if d.Findings[i].Invariant == inv && d.Findings[i].Signature == sig {
			return &d.Findings[i]
		}
	}
	return nil
}

// Violate records the first violation of the run.
func (d *D) Violate(invariant, signature, format string, a ...any) {
	if d.V != nil {
		return
	}
	d.V = &Violation{Invariant: invariant, Signature: signature, Text: fmt.Sprintf(format, a...), AtStep: len(d.Steps)}
	d.Logf("VIOLATION %s %s %s", invariant, signature, d.V.Text)
}

func (d *D) Tail() []string { return append([]string(nil), d.tail...) }

func WriteReplay(path string, rf *ReplayFile) error {
	b, err := json.MarshalIndent(rf, "", " ")
	if err != nil {
		return err
	}
	return os.WriteFile(path, b, 0o644)
}

func ReadReplay(path string) (*ReplayFile, error) {
	b, err := os.ReadFile(path)
	if err != nil {
		return nil, err
	}
	rf := &ReplayFile{}
	if err := json.Unmarshal(b, rf); err != nil {
		return nil, err
	}
	return rf, nil
}

func SortedKeys(c Counts) []string {
	ks := make([]string, 0, len(c))
	for k := range c {
		ks = append(ks, k)
	}
	sort.Strings(ks)
	return ks
}
