package sim

import (
	"encoding/json"
	"fmt"
	"os"
	"path/filepath"
	"strconv"
	"strings"
	"testing"
	"time"
)

// Spec is what a simulator registers for one property.
type Spec struct {
	Sim string
	// GenConfig draws the run configuration from the seed.
	GenConfig func(r *Rand, tier string) Config
	// Run executes one whole program (generated or replayed, per d) against the real code.
	Run func(t *testing.T, d *D)
	// Real / Stub tables for the evidence.
	Real, Stub []string
	// Rule describes generation and what makes a run non-trivial / distinct.
	Rule string
	// Assumptions for the evidence file.
	Assumptions []string
}

type ViolationRec struct {
	Seed      uint64    `json:"seed"`
	Violation Violation `json:"violation"`
	Replay    string    `json:"replay"`
	Steps     int       `json:"steps"`
	OrigSteps int       `json:"orig_steps"`
	LogHash   string    `json:"log_hash"`
}

// Summary is what one worker process reports to the orchestrator.
type Summary struct {
	Prop        string         `json:"prop"`
	Sim         string         `json:"sim"`
	Worker      int            `json:"worker"`
	Runs        int64          `json:"runs"`
	Discarded   int64          `json:"discarded"`
	DiscardWhy  Counts         `json:"discard_reasons"`
	Steps       int64          `json:"steps"`
	SimTimeMs   int64          `json:"sim_time_ms"`
	Faults      Counts         `json:"faults"`
	Probes      Counts         `json:"probes"`
	TraceSigs   []uint64       `json:"trace_sigs"`
	States      []uint64       `json:"states"`
	Samples     []any          `json:"samples"`
	Violations  []ViolationRec `json:"violations"`
	DetChecked  int64          `json:"det_checked"`
	DetMismatch []string       `json:"det_mismatch"`
	WallS       float64        `json:"wall_s"`
	BudgetHit   bool           `json:"budget_hit"`
	Real        []string       `json:"real"`
	Stub        []string       `json:"stub"`
	Rule        string         `json:"rule"`
	Assumptions []string       `json:"assumptions"`
	InfraError  string         `json:"infra_error,omitempty"`
}

func envInt(k string, def int64) int64 {
	if v := os.Getenv(k); v != "" {
		if n, err := strconv.ParseInt(v, 10, 64); err == nil {
			return n
		}
	}
	return def
}

func envU64(k string, def uint64) uint64 {
	if v := os.Getenv(k); v != "" {
		if n, err := strconv.ParseUint(v, 10, 64); err == nil {
			return n
		}
		if n, err := strconv.ParseInt(v, 10, 64); err == nil {
			return uint64(n)
		}
	}
	return def
}

// runOne executes a program with panic isolation: a panic that escapes the simulator is a
// harness defect (infrastructure), never a property violation.
func runOne(t *testing.T, spec *Spec, d *D) (infra string) {
	defer func() {
		if r := recover(); r != nil {
			infra = fmt.Sprintf("simulator panic: %v", r)
		}
	}()
	spec.Run(t, d)
	return ""
}

// WorkerMain is the body of every simulator package's TestWorker.
func WorkerMain(t *testing.T, specs map[string]*Spec) {
	mode := os.Getenv("VERIF_MODE")
	if mode == "" {
		t.Skip("VERIF_MODE not set (run through /verif/run.sh)")
	}
	prop := os.Getenv("VERIF_PROP")
	spec := specs[prop]
	if spec == nil {
		fmt.Printf("INFRA unknown property %q in this simulator\n", prop)
		os.Exit(2)
	}
	tier := os.Getenv("VERIF_TIER")
	if tier == "" {
		tier = "quick"
	}
	switch mode {
	case "replay":
		replayMain(t, spec, prop, tier)
	case "batch":
		batchMain(t, spec, prop, tier)
	case "det":
		detMain(t, spec, prop, tier)
	case "dump": // debugging aid: the full event log of one generated run (VERIF_SEED = the run's seed)
		d := NewGenD(prop, tier, envU64("VERIF_SEED", 1))
		d.Cfg = spec.GenConfig(d.Rng, tier)
		d.KeepLog = true
		if infra := runOne(t, spec, d); infra != "" {
			fmt.Printf("INFRA %s\n", infra)
			os.Exit(2)
		}
		_ = os.WriteFile(os.Getenv("VERIF_OUT"), []byte(strings.Join(d.Lines, "\n")+"\n"+d.LogHash()+"\n"), 0o644)
	default:
		fmt.Printf("INFRA unknown mode %q\n", mode)
		os.Exit(2)
	}
}

func replayMain(t *testing.T, spec *Spec, prop, tier string) {
	rf, err := ReadReplay(os.Getenv("VERIF_REPLAY"))
	if err != nil {
		fmt.Printf("INFRA cannot read replay: %v\n", err)
		os.Exit(2)
	}
	d := NewReplayD(rf.Property, tier, rf.Seed, rf.Config, rf.Steps)
	d.KeepLog = os.Getenv("VERIF_VERBOSE") != ""
	if infra := runOne(t, spec, d); infra != "" {
		fmt.Printf("INFRA %s\n", infra)
		os.Exit(2)
	}
	if d.KeepLog {
		for _, l := range d.Lines {
			fmt.Println("  |", l)
		}
	}
	out := map[string]any{"log_hash": d.LogHash(), "violation": d.V, "steps": len(d.Steps), "findings": d.Findings}
	if rf.Violation != nil {
		if v := d.has(rf.Violation.Invariant, rf.Violation.Signature); v != nil {
			out["violation"] = v
		}
	}
	b, _ := json.Marshal(out)
	fmt.Printf("REPLAY-RESULT %s\n", b)
	if p := os.Getenv("VERIF_OUT"); p != "" {
		_ = os.WriteFile(p, b, 0o644)
	}
}

func detMain(t *testing.T, spec *Spec, prop, tier string) {
	base := envU64("VERIF_SEED", 1)
	n := envInt("VERIF_RUNS", 40)
	res := map[string]string{}
	for i := int64(0); i < n; i++ {
		seed := SplitMix(base, uint64(i))
		d := NewGenD(prop, tier, seed)
		d.Cfg = spec.GenConfig(d.Rng, tier)
		if infra := runOne(t, spec, d); infra != "" {
			fmt.Printf("INFRA %s (seed %d)\n", infra, seed)
			os.Exit(2)
		}
		res[strconv.FormatUint(seed, 10)] = d.LogHash()
	}
	b, _ := json.Marshal(res)
	_ = os.WriteFile(os.Getenv("VERIF_OUT"), b, 0o644)
}

func batchMain(t *testing.T, spec *Spec, prop, tier string) {
	base := envU64("VERIF_SEED", 1)
	worker := envInt("VERIF_WORKER", 0)
	nworkers := envInt("VERIF_NWORKERS", 1)
	total := envInt("VERIF_RUNS", 100)
	budget := time.Duration(envInt("VERIF_BUDGET_S", 3600)) * time.Second
	detEvery := envInt("VERIF_DET_EVERY", 40)
	replayDir := os.Getenv("VERIF_REPLAY_DIR")
	out := os.Getenv("VERIF_OUT")

	start := time.Now()
	sum := &Summary{Prop: prop, Sim: spec.Sim, Worker: int(worker), Faults: Counts{}, Probes: Counts{}, DiscardWhy: Counts{},
		Real: spec.Real, Stub: spec.Stub, Rule: spec.Rule, Assumptions: spec.Assumptions}
	sigs := map[uint64]struct{}{}
	states := map[uint64]struct{}{}
	flush := func() {
		sum.WallS = time.Since(start).Seconds()
		sum.TraceSigs = sum.TraceSigs[:0]
		for k := range sigs {
			sum.TraceSigs = append(sum.TraceSigs, k)
		}
		sum.States = sum.States[:0]
		for k := range states {
			sum.States = append(sum.States, k)
		}
		b, _ := json.Marshal(sum)
		_ = os.WriteFile(out, b, 0o644)
	}
	k := int64(0)
	nviol := 0
	findingSeen := map[string]bool{}
	for i := worker; i < total; i += nworkers {
		MinimiseBy = start.Add(budget + 30*time.Second)
		if time.Since(start) > budget {
			sum.BudgetHit = true
			break
		}
		seed := SplitMix(base, uint64(i))
		d := NewGenD(prop, tier, seed)
		d.Cfg = spec.GenConfig(d.Rng, tier)
		t0run := time.Now()
		infra := runOne(t, spec, d)
		if os.Getenv("VERIF_SLOWLOG") != "" && time.Since(t0run) > 5*time.Second {
			fmt.Fprintf(os.Stderr, "SLOW run seed=%d took %v steps=%d\n", seed, time.Since(t0run), len(d.Steps))
		}
		if infra != "" {
			sum.InfraError = fmt.Sprintf("%s (seed %d)", infra, seed)
			flush()
			fmt.Printf("INFRA %s\n", sum.InfraError)
			os.Exit(2)
		}
		k++
		if d.Discard != "" {
			sum.Discarded++
			sum.DiscardWhy[d.Discard]++
			continue
		}
		sum.Runs++
		sum.Steps += int64(len(d.Steps))
		sum.SimTimeMs += d.SimTime.Milliseconds()
		sum.Faults.Add(d.Faults)
		sum.Probes.Add(d.Probes)
		if d.Nontriv {
			sigs[d.TraceSig()] = struct{}{}
		}
		if len(states) < 400000 {
			for s := range d.States {
				states[s] = struct{}{}
			}
		}
		if len(sum.Samples) < 2 && d.Nontriv {
			steps := d.Steps
			if len(steps) > 60 {
				steps = steps[:60]
			}
			sum.Samples = append(sum.Samples, map[string]any{"seed": strconv.FormatUint(seed, 10), "config": d.Cfg, "steps_total": len(d.Steps), "steps_head": steps})
		}
		// continuous determinism self-test: same seed again, event-log hashes must agree
		if detEvery > 0 && k%detEvery == 1 {
			d2 := NewGenD(prop, tier, seed)
			d2.Cfg = spec.GenConfig(d2.Rng, tier)
			if infra := runOne(t, spec, d2); infra != "" {
				sum.InfraError = infra
				flush()
				os.Exit(2)
			}
			sum.DetChecked++
			if d2.LogHash() != d.LogHash() {
				sum.DetMismatch = append(sum.DetMismatch, strconv.FormatUint(seed, 10))
			}
		}
		if d.V != nil {
			rec := reportViolation(t, spec, d, d.V, replayDir)
			sum.Violations = append(sum.Violations, rec)
			nviol++
			if nviol >= 3 {
				break
			}
		}
		for i := range d.Findings {
			f := d.Findings[i]
			key := f.Invariant + "|" + f.Signature
			sum.Probes["finding:"+key]++
			if !findingSeen[key] { // minimise and report each finding class once per worker
				findingSeen[key] = true
				sum.Violations = append(sum.Violations, reportViolation(t, spec, d, &f, replayDir))
			}
		}
		if k%50 == 0 {
			flush()
		}
	}
	flush()
}

func reportViolation(t *testing.T, spec *Spec, d *D, target *Violation, dir string) ViolationRec {
	orig := append([]Step(nil), d.Steps...)
	steps, v, hash, tail := Minimise(t, spec, d, target)
	rf := &ReplayFile{Property: d.Prop, Sim: spec.Sim, Seed: d.Seed, Config: d.Cfg, Steps: steps, Violation: v,
		EventLog: hash, Minimised: len(steps) < len(orig), OrigSteps: len(orig), FaultsSeen: d.Faults, TailOfLog: tail}
	name := fmt.Sprintf("%s-%d", d.Prop, d.Seed)
	if d.V == nil || target != d.V {
		name += "-" + sanitize(target.Invariant) + "-" + sanitize(target.Signature)
	}
	path := filepath.Join(dir, name+".json")
	rf.ReplayCmd = "./run.sh replay " + path
	if err := WriteReplay(path, rf); err != nil {
		fmt.Printf("INFRA cannot write replay: %v\n", err)
		os.Exit(2)
	}
	// keep the un-minimised program next to it
	if rf.Minimised {
		full := *rf
		full.Steps, full.Minimised, full.Violation = orig, false, target
		full.EventLog = d.LogHash()
		_ = WriteReplay(filepath.Join(dir, name+".full.json"), &full)
	}
	return ViolationRec{Seed: d.Seed, Violation: *v, Replay: path, Steps: len(steps), OrigSteps: len(orig), LogHash: hash}
}

// Minimise shrinks the step list by delta debugging, then simplifies step arguments, accepting a
// candidate only if the same (invariant, signature) still fails. Budget: 400 executions or 90 s.
func sanitize(s string) string {
	b := []byte(s)
	for i, c := range b {
		if !(c >= 'a' && c <= 'z' || c >= 'A' && c <= 'Z' || c >= '0' && c <= '9' || c == '-') {
			b[i] = '_'
		}
	}
	return string(b)
}

// MinimiseBy: minimisation stops at this instant (set by the batch loop: end of the worker's budget plus a
// grace period), so that a simulator whose failing runs are expensive cannot run into the orchestrator's watchdog.
var MinimiseBy time.Time

func Minimise(t *testing.T, spec *Spec, d *D, target *Violation) ([]Step, *Violation, string, []string) {
	best := append([]Step(nil), d.Steps...)
	// canonical re-execution of the full program in replay mode (also proves replayability)
	deadline := time.Now().Add(90 * time.Second)
	if !MinimiseBy.IsZero() && MinimiseBy.Before(deadline) { // the worker's own budget is nearly used up
		deadline = MinimiseBy
	}
	execs := 0
	var lastTail []string
	try := func(steps []Step) (*Violation, string) {
		execs++
		d2 := NewReplayD(d.Prop, d.Tier, d.Seed, d.Cfg, steps)
		if infra := runOne(t, spec, d2); infra != "" {
			return nil, ""
		}
		lastTail = d2.Tail()
		return d2.has(target.Invariant, target.Signature), d2.LogHash()
	}
	same := func(v *Violation) bool { return v != nil }
	if !time.Now().Before(deadline) {
		// no time left at all: the program as generated is reported; the orchestrator's replay in a fresh
		// process is what confirms it
		return best, target, d.LogHash(), d.Tail()
	}
	t0try := time.Now()
	v0, h0 := try(best)
	if cost := time.Since(t0try); time.Now().Add(cost).After(deadline) {
		deadline = time.Now() // one more execution would overrun: keep what we have
	}
	if !same(v0) {
		// replay of the recorded program does not reproduce: report un-minimised; orchestrator flags it
		return best, target, d.LogHash(), d.Tail()
	}
	bestV, bestH := v0, h0
	bestTail := lastTail
	// cutting the program after the step that produced the violation is itself a candidate: a run
	// continues after a (containable) finding, so the shorter program has another event log and the
	// recorded hash must be that of the program that is written to the replay file
	truncate := func() {
		if bestV.AtStep < len(best) && time.Now().Before(deadline) {
			cand := append([]Step(nil), best[:bestV.AtStep]...)
			if v, h := try(cand); same(v) {
				best, bestV, bestH, bestTail = cand, v, h, lastTail
			}
		}
	}
	truncate()
	n := 2
	for len(best) >= 2 && execs < 400 && time.Now().Before(deadline) {
		chunk := (len(best) + n - 1) / n
		reduced := false
		for i := 0; i < len(best) && execs < 400 && time.Now().Before(deadline); i += chunk {
			j := i + chunk
			if j > len(best) {
				j = len(best)
			}
			cand := append(append([]Step(nil), best[:i]...), best[j:]...)
			if v, h := try(cand); same(v) {
				best, bestV, bestH, bestTail = cand, v, h, lastTail
				truncate()
				if n > 2 {
					n--
				}
				reduced = true
				break
			}
		}
		if !reduced {
			if chunk == 1 {
				break
			}
			n *= 2
			if n > len(best) {
				n = len(best)
			}
		}
	}
	// argument simplification: try to lower each integer argument towards 0
	for i := 0; i < len(best) && execs < 400 && time.Now().Before(deadline); i++ {
		for a := 0; a < len(best[i].A); a++ {
			if best[i].A[a] == 0 {
				continue
			}
			for _, nv := range []int64{0, best[i].A[a] / 2} {
				if nv == best[i].A[a] {
					continue
				}
				cand := cloneSteps(best)
				cand[i].A[a] = nv
				if v, h := try(cand); same(v) {
					best, bestV, bestH, bestTail = cand, v, h, lastTail
					break
				}
			}
		}
	}
	return best, bestV, bestH, bestTail
}

func cloneSteps(s []Step) []Step {
	o := make([]Step, len(s))
	for i := range s {
		o[i] = Step{Op: s[i].Op, A: append([]int64(nil), s[i].A...), S: append([]string(nil), s[i].S...)}
	}
	return o
}
