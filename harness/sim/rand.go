// Package sim is the core of the deterministic simulation framework: one integer seed decides
// a configuration and a program (sequence of explicit steps); the program is the replay artefact.
package sim

// Rand is a splitmix64 generator: the only source of choices in a generated run.
type Rand struct{ s uint64 }

func mix(z uint64) uint64 {
	z = (z ^ (z >> 30)) * 0xbf58476d1ce4e5b9
	z = (z ^ (z >> 27)) * 0x94d049bb133111eb
	return z ^ (z >> 31)
}

// SplitMix derives the i-th run seed of a batch from the batch seed (VERIF_SEED).
func SplitMix(seed, i uint64) uint64 {
	return mix(seed + (i+1)*0x9e3779b97f4a7c15)
}

func NewRand(seed uint64) *Rand { return &Rand{s: seed} }

func (r *Rand) U64() uint64 {
	r.s += 0x9e3779b97f4a7c15
	return mix(r.s)
}

// Intn returns a value in [0,n); n<=0 yields 0.
func (r *Rand) Intn(n int) int {
	if n <= 0 {
		return 0
	}
	return int(r.U64() % uint64(n))
}

func (r *Rand) I64n(n int64) int64 {
	if n <= 0 {
		return 0
	}
	return int64(r.U64() % uint64(n))
}

// Range returns a value in [lo,hi].
func (r *Rand) Range(lo, hi int) int {
	if hi <= lo {
		return lo
	}
	return lo + r.Intn(hi-lo+1)
}

func (r *Rand) Float() float64 { return float64(r.U64()>>11) / float64(1<<53) }

// Chance is true with probability p.
func (r *Rand) Chance(p float64) bool { return r.Float() < p }

// Pct is true with probability pct/100.
func (r *Rand) Pct(pct int64) bool { return int64(r.Intn(100)) < pct }

// Weighted picks an index with probability proportional to the weights.
func (r *Rand) Weighted(w ...int) int {
	t := 0
	for _, x := range w {
		if x > 0 {
			t += x
		}
	}
	if t == 0 {
		return 0
	}
	k := r.Intn(t)
	for i, x := range w {
		if x <= 0 {
			continue
		}
		if k < x {
			return i
		}
		k -= x
	}
	return len(w) - 1
}

// Perm returns a permutation of 0..n-1.
func (r *Rand) Perm(n int) []int {
	p := make([]int, n)
	for i := range p {
		p[i] = i
	}
	for i := n - 1; i > 0; i-- {
		j := r.Intn(i + 1)
		p[i], p[j] = p[j], p[i]
	}
	return p
}

// Bytes fills a fresh slice with pseudo-random bytes.
func (r *Rand) Bytes(n int) []byte {
	b := make([]byte, n)
	for i := 0; i < n; i += 8 {
		v := r.U64()
		for j := 0; j < 8 && i+j < n; j++ {
			b[i+j] = byte(v >> (8 * j))
		}
	}
	return b
}
