package sim

import (
	"bytes"
	"errors"
	"fmt"
	"sort"
	"strings"

	"github.com/bloxapp/ssv/storage/basedb"
)

// MemDB is a small in-memory basedb.Database with the semantics the repository relies on:
// buffered read-your-writes transactions applied atomically at Commit, sorted iteration, keys =
// prefix||key. It is a STUB for the storage engine (listed as such in the evidence); simulators
// that put the engine itself under test use the real in-memory kv.BadgerDB instead.
type MemDB struct {
	data map[string][]byte
}

func NewMemDB() *MemDB { return &MemDB{data: map[string][]byte{}} }

type memRW struct {
	db     *MemDB
	writes map[string][]byte // nil value = delete
	isTxn  bool
	done   bool
}

func cat(p, k []byte) string { return string(p) + string(k) }

func (t *memRW) get(k string) ([]byte, bool) {
	if t.isTxn {
		if v, ok := t.writes[k]; ok {
			if v == nil {
				return nil, false
			}
			return v, true
		}
	}
	v, ok := t.db.data[k]
	return v, ok
}

func (t *memRW) keys(prefix string) []string {
	seen := map[string]bool{}
	var out []string
	for k := range t.db.data {
		if len(k) >= len(prefix) && k[:len(prefix)] == prefix {
			seen[k] = true
		}
	}
	if t.isTxn {
		for k, v := range t.writes {
			if len(k) >= len(prefix) && k[:len(prefix)] == prefix {
				if v == nil {
					delete(seen, k)
				} else {
					seen[k] = true
				}
			}
		}
	}
	for k := range seen {
		out = append(out, k)
	}
	sort.Strings(out)
	return out
}

func (t *memRW) put(k string, v []byte) {
	if t.isTxn {
		t.writes[k] = v
		return
	}
	if v == nil {
		delete(t.db.data, k)
	} else {
		t.db.data[k] = v
	}
}

func (t *memRW) Get(prefix, key []byte) (basedb.Obj, bool, error) {
	v, ok := t.get(cat(prefix, key))
	if !ok {
		return basedb.Obj{}, false, nil
	}
	return basedb.Obj{Key: key, Value: append([]byte(nil), v...)}, true, nil
}

func (t *memRW) GetMany(prefix []byte, keys [][]byte, it func(basedb.Obj) error) error {
	for _, k := range keys {
		if v, ok := t.get(cat(prefix, k)); ok {
			if err := it(basedb.Obj{Key: k, Value: append([]byte(nil), v...)}); err != nil {
				return err
			}
		}
	}
	return nil
}

func (t *memRW) GetAll(prefix []byte, h func(int, basedb.Obj) error) error {
	for i, k := range t.keys(string(prefix)) {
		v, _ := t.get(k)
		if err := h(i, basedb.Obj{Key: []byte(k[len(prefix):]), Value: append([]byte(nil), v...)}); err != nil {
			return err
		}
	}
	return nil
}

func (t *memRW) Set(prefix, key, value []byte) error {
	if value == nil {
		value = []byte{}
	}
	t.put(cat(prefix, key), append([]byte{}, value...))
	return nil
}

func (t *memRW) SetMany(prefix []byte, n int, next func(int) (basedb.Obj, error)) error {
	// Badger: on the database this is a write batch (nothing is written if next fails), inside a
	// transaction the items are written one by one
	type kv struct {
		k string
		v []byte
	}
	var batch []kv
	for i := 0; i < n; i++ {
		o, err := next(i)
		if err != nil {
			return err
		}
		if t.isTxn {
			t.put(cat(prefix, o.Key), append([]byte{}, o.Value...))
		} else {
			batch = append(batch, kv{cat(prefix, o.Key), append([]byte{}, o.Value...)})
		}
	}
	for _, b := range batch {
		t.put(b.k, b.v)
	}
	return nil
}

func (t *memRW) Delete(prefix, key []byte) error {
	t.put(cat(prefix, key), nil)
	return nil
}

func (t *memRW) Commit() error {
	if t.done {
		return errors.New("transaction already finished")
	}
	t.done = true
	for k, v := range t.writes {
		if v == nil {
			delete(t.db.data, k)
		} else {
			t.db.data[k] = v
		}
	}
	return nil
}

func (t *memRW) Discard() { t.done = true; t.writes = nil }

func (m *MemDB) rw() *memRW                                { return &memRW{db: m} }
func (m *MemDB) Get(p, k []byte) (basedb.Obj, bool, error) { return m.rw().Get(p, k) }
func (m *MemDB) GetMany(p []byte, ks [][]byte, it func(basedb.Obj) error) error {
	return m.rw().GetMany(p, ks, it)
}
func (m *MemDB) GetAll(p []byte, h func(int, basedb.Obj) error) error { return m.rw().GetAll(p, h) }
func (m *MemDB) Set(p, k, v []byte) error                             { return m.rw().Set(p, k, v) }
func (m *MemDB) SetMany(p []byte, n int, next func(int) (basedb.Obj, error)) error {
	return m.rw().SetMany(p, n, next)
}
func (m *MemDB) Delete(p, k []byte) error { return m.rw().Delete(p, k) }
func (m *MemDB) Begin() basedb.Txn        { return &memRW{db: m, writes: map[string][]byte{}, isTxn: true} }
func (m *MemDB) BeginRead() basedb.ReadTxn {
	return &memRW{db: m, writes: map[string][]byte{}, isTxn: true}
}
func (m *MemDB) Using(rw basedb.ReadWriter) basedb.ReadWriter {
	if rw == nil {
		return m
	}
	return rw
}
func (m *MemDB) UsingReader(r basedb.Reader) basedb.Reader {
	if r == nil {
		return m
	}
	return r
}
func (m *MemDB) CountPrefix(p []byte) (int64, error) { return int64(len(m.rw().keys(string(p)))), nil }
func (m *MemDB) DeletePrefix(p []byte) (int, error) {
	ks := m.rw().keys(string(p))
	for _, k := range ks {
		delete(m.data, k)
	}
	return len(ks), nil
}
func (m *MemDB) DropPrefix(p []byte) error { _, err := m.DeletePrefix(p); return err }
func (m *MemDB) Update(fn func(basedb.Txn) error) error {
	t := m.Begin()
	if err := fn(t); err != nil {
		t.Discard()
		return err
	}
	return t.Commit()
}
func (m *MemDB) Close() error { return nil }

// Dump renders the whole committed content canonically (sorted), for state comparison.
func DumpDB(db basedb.Database, skip func(key []byte) bool) string {
	var b bytes.Buffer
	_ = db.GetAll(nil, func(_ int, o basedb.Obj) error {
		if skip != nil && skip(o.Key) {
			return nil
		}
		fmt.Fprintf(&b, "%x=%x\n", o.Key, o.Value)
		return nil
	})
	return b.String()
}

// ---- FaultDB: fault-injecting wrapper around any basedb.Database (the disk seam).

var ErrInjected = errors.New("injected storage error")

// Crash is the panic value used to unwind the code under test at a crash point. Only committed
// state of the inner database survives; every in-memory object is dropped by the simulator.
type Crash struct {
	At int
	Op string
}

const (
	FaultNone = iota
	FaultCrashBefore
	FaultCrashAfter
	FaultError
	// FaultReadErrorSticky: from point At on EVERY read (Get / GetMany / GetAll) fails until the fault is
	// disarmed (At = 0), writes still succeed: an unreadable table block, a retry loop that keeps failing.
	FaultReadErrorSticky
)

type FaultDB struct {
	Inner basedb.Database
	Calls int    // number of interruption points passed so far
	At    int    // 1-based index of the point to fault (0 = never)
	Mode  int    // FaultCrashBefore | FaultCrashAfter | FaultError
	Dead  bool   // after a crash: nothing reaches the inner database any more
	Fired string // op at which the fault fired
	Ops   []string
	// Yield, if set, is called at every interruption point before the operation (regime C scheduling).
	Yield func(op string)
	// Extra interruption points (key-manager call boundaries) share the same counter through Point.
}

func NewFaultDB(inner basedb.Database) *FaultDB { return &FaultDB{Inner: inner} }

// Point is an interruption point. It returns (execute, err): whether the operation is to be
// executed and the error to return instead. It may panic with Crash.
func (f *FaultDB) Point(op string) (after bool, err error) {
	if f.Dead {
		panic(Crash{At: f.Calls, Op: op + "(dead)"})
	}
	if f.Yield != nil {
		f.Yield(op)
	}
	f.Calls++
	if len(f.Ops) < 4096 {
		f.Ops = append(f.Ops, op)
	}
	if f.At != 0 && f.Mode == FaultReadErrorSticky {
		if f.Calls >= f.At && strings.Contains(op, "Get") {
			f.Fired = op
			return false, ErrInjected
		}
		return false, nil
	}
	if f.At != 0 && f.Calls == f.At {
		f.Fired = op
		switch f.Mode {
		case FaultCrashBefore:
			f.Dead = true
			panic(Crash{At: f.Calls, Op: op})
		case FaultCrashAfter:
			return true, nil
		case FaultError:
			return false, ErrInjected
		}
	}
	return false, nil
}

func (f *FaultDB) done(after bool, op string) {
	if after {
		f.Dead = true
		panic(Crash{At: f.Calls, Op: op})
	}
}

type faultRW struct {
	f     *FaultDB
	inner basedb.ReadWriter
	txn   basedb.Txn
	rtxn  basedb.ReadTxn
	tag   string
}

func (t *faultRW) Get(p, k []byte) (basedb.Obj, bool, error) {
	after, err := t.f.Point(t.tag + "Get")
	if err != nil {
		// kv.badgerTxn.Get reports found=true together with any error other than key-not-found;
		// callers (e.g. ekm OpenAccount) rely on that convention, so the injected error mirrors it
		return basedb.Obj{}, true, err
	}
	o, ok, e := t.reader().Get(p, k)
	t.f.done(after, t.tag+"Get")
	return o, ok, e
}
func (t *faultRW) reader() basedb.Reader {
	if t.inner != nil {
		return t.inner
	}
	return t.rtxn
}
func (t *faultRW) GetMany(p []byte, ks [][]byte, it func(basedb.Obj) error) error {
	after, err := t.f.Point(t.tag + "GetMany")
	if err != nil {
		return err
	}
	e := t.reader().GetMany(p, ks, it)
	t.f.done(after, t.tag+"GetMany")
	return e
}
func (t *faultRW) GetAll(p []byte, h func(int, basedb.Obj) error) error {
	after, err := t.f.Point(t.tag + "GetAll")
	if err != nil {
		return err
	}
	e := t.reader().GetAll(p, h)
	t.f.done(after, t.tag+"GetAll")
	return e
}
func (t *faultRW) Set(p, k, v []byte) error {
	after, err := t.f.Point(t.tag + "Set")
	if err != nil {
		return err
	}
	e := t.inner.Set(p, k, v)
	t.f.done(after, t.tag+"Set")
	return e
}
func (t *faultRW) SetMany(p []byte, n int, next func(int) (basedb.Obj, error)) error {
	after, err := t.f.Point(t.tag + "SetMany")
	if err != nil {
		return err
	}
	e := t.inner.SetMany(p, n, next)
	t.f.done(after, t.tag+"SetMany")
	return e
}
func (t *faultRW) Delete(p, k []byte) error {
	after, err := t.f.Point(t.tag + "Delete")
	if err != nil {
		return err
	}
	e := t.inner.Delete(p, k)
	t.f.done(after, t.tag+"Delete")
	return e
}
func (t *faultRW) Commit() error {
	after, err := t.f.Point("txn.Commit")
	if err != nil {
		t.txn.Discard()
		return err
	}
	e := t.txn.Commit()
	t.f.done(after, "txn.Commit")
	return e
}
func (t *faultRW) Discard() {
	// runs in deferred calls while a crash unwinds: never panics, never counts
	if t.txn != nil {
		t.txn.Discard()
	} else if t.rtxn != nil {
		t.rtxn.Discard()
	}
}

func (f *FaultDB) direct() *faultRW { return &faultRW{f: f, inner: f.Inner, tag: "db."} }

func (f *FaultDB) Get(p, k []byte) (basedb.Obj, bool, error) { return f.direct().Get(p, k) }
func (f *FaultDB) GetMany(p []byte, ks [][]byte, it func(basedb.Obj) error) error {
	return f.direct().GetMany(p, ks, it)
}
func (f *FaultDB) GetAll(p []byte, h func(int, basedb.Obj) error) error {
	return f.direct().GetAll(p, h)
}
func (f *FaultDB) Set(p, k, v []byte) error { return f.direct().Set(p, k, v) }
func (f *FaultDB) SetMany(p []byte, n int, next func(int) (basedb.Obj, error)) error {
	return f.direct().SetMany(p, n, next)
}
func (f *FaultDB) Delete(p, k []byte) error { return f.direct().Delete(p, k) }
func (f *FaultDB) Begin() basedb.Txn {
	if f.Dead {
		panic(Crash{At: f.Calls, Op: "Begin(dead)"})
	}
	t := f.Inner.Begin()
	return &faultRW{f: f, inner: t, txn: t, tag: "txn."}
}
func (f *FaultDB) BeginRead() basedb.ReadTxn {
	if f.Dead {
		panic(Crash{At: f.Calls, Op: "BeginRead(dead)"})
	}
	t := f.Inner.BeginRead()
	return &faultRW{f: f, rtxn: t, tag: "rtxn."}
}
func (f *FaultDB) Using(rw basedb.ReadWriter) basedb.ReadWriter {
	if rw == nil {
		return f
	}
	return rw
}
func (f *FaultDB) UsingReader(r basedb.Reader) basedb.Reader {
	if r == nil {
		return f
	}
	return r
}
func (f *FaultDB) CountPrefix(p []byte) (int64, error) {
	after, err := f.Point("db.CountPrefix")
	if err != nil {
		return 0, err
	}
	n, e := f.Inner.CountPrefix(p)
	f.done(after, "db.CountPrefix")
	return n, e
}
func (f *FaultDB) DeletePrefix(p []byte) (int, error) {
	after, err := f.Point("db.DeletePrefix")
	if err != nil {
		return 0, err
	}
	n, e := f.Inner.DeletePrefix(p)
	f.done(after, "db.DeletePrefix")
	return n, e
}
func (f *FaultDB) DropPrefix(p []byte) error {
	after, err := f.Point("db.DropPrefix")
	if err != nil {
		return err
	}
	e := f.Inner.DropPrefix(p)
	f.done(after, "db.DropPrefix")
	return e
}
func (f *FaultDB) Update(fn func(basedb.Txn) error) error {
	t := f.Begin()
	if err := fn(t); err != nil {
		t.Discard()
		return err
	}
	return t.Commit()
}
func (f *FaultDB) Close() error { return nil }

// RunToCrash runs fn; a Crash panic is caught and returned, any other panic is re-raised.
func RunToCrash(fn func()) (c *Crash) {
	defer func() {
		if r := recover(); r != nil {
			if cr, ok := r.(Crash); ok {
				c = &cr
				return
			}
			panic(r)
		}
	}()
	fn()
	return nil
}
