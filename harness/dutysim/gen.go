package dutysim

import (
	"time"

	"verifharness/sim"
)

// genConfig: swarm-style per-run configuration.
func genConfig(r *sim.Rand, tier string) sim.Config {
	c := sim.Config{
		"nv":      int64(r.Range(2, 6)),
		"period":  int64(r.Range(1, 3)),         // which sync-committee period boundary is crossed
		"pre":     int64(r.Range(2, 3)),         // epochs before the boundary at which the scheduler starts
		"epochs":  int64(r.Range(3, 6)),         // epochs simulated
		"startms": int64(r.Range(1, 11)) * 1000, // offset inside the slot at which Start is called
		"propPct": int64(r.Range(30, 70)),
		"syncPct": int64(r.Range(60, 100)),
		"salt":    int64(r.U64() >> 1),
		"mask":    int64(r.Intn(64)),
		// event weights (0 = kind disabled in this run)
		"wHead": int64(r.Range(4, 10)),
		"wCur":  int64(r.Weighted(2, 3, 2)),
		"wPrev": int64(r.Weighted(2, 3, 2)),
		"wBump": int64(r.Weighted(3, 1)),
		"wIdx":  int64(r.Weighted(2, 3, 2)),
		"wFail": int64(r.Weighted(2, 2, 2, 1)),
		"wSlow": int64(r.Weighted(2, 2, 1)),
		"wOver": int64(r.Weighted(3, 1)),
		"quiet": int64(r.Range(20, 85)), // % of advances that skip 1-4 slots with no event
		"burst": int64(r.Range(10, 40)),
	}
	if c["epochs"] <= c["pre"] {
		c["epochs"] = c["pre"] + 1
	}
	return c
}

type genState struct {
	w       *world
	end     time.Time
	advNext bool
}

func (g *genState) next(r *sim.Rand) *sim.Step {
	w, c := g.w, g.w.d.Cfg
	now := time.Now()
	if !now.Before(g.end) {
		return nil
	}
	if g.advNext {
		g.advNext = false
		cur := w.curSlot()
		off := now.Sub(w.slotStart(cur)).Milliseconds()
		base := int64(0) // ms from the start of the current slot to the start of the target slot
		if r.Pct(c.Get("quiet", 20)) {
			base = int64(r.Range(1, 4)) * 12000
		}
		var target int64
		switch r.Weighted(3, 3, 4, 1) {
		case 0: // 1 ms before the next tick
			target = base + 11999
		case 1: // 1 ms after the next tick
			target = base + 12001
		case 2: // strictly inside a slot
			target = base + int64(r.Range(2, 11998))
			if target <= off {
				target += 12000
			}
		default: // just around the 1/3-slot point where attester/sync dispatches are released
			target = base + 12000 + int64(r.Range(3790, 4210))
		}
		if target <= off {
			target = off + 1
		}
		return &sim.Step{Op: "adv", A: []int64{target - off}}
	}
	if !r.Pct(c.Get("burst", 30)) {
		g.advNext = true
	}
	fam := int64(r.Intn(nFam))
	switch r.Weighted(int(c.Get("wHead", 4)), int(c.Get("wCur", 1)), int(c.Get("wPrev", 1)), int(c.Get("wBump", 0)),
		int(c.Get("wIdx", 1)), int(c.Get("wFail", 1)), int(c.Get("wSlow", 1)), int(c.Get("wOver", 0))) {
	case 0:
		return &sim.Step{Op: "head", A: []int64{0}}
	case 1:
		return &sim.Step{Op: "head", A: []int64{1}}
	case 2:
		return &sim.Step{Op: "head", A: []int64{2}}
	case 3:
		return &sim.Step{Op: "head", A: []int64{3}}
	case 4:
		switch r.Weighted(6, 2, 2) {
		case 0:
			return &sim.Step{Op: "idx", A: []int64{int64(r.Intn(6))}}
		case 1: // remove every validator (also the only / last one, with its duties still pending)
			return &sim.Step{Op: "idxset", A: []int64{0}}
		default:
			return &sim.Step{Op: "idxset", A: []int64{int64(r.Intn(64))}}
		}
	case 5:
		return &sim.Step{Op: "fail", A: []int64{fam}}
	case 6:
		var ms int
		switch r.Weighted(3, 3, 2, 2) {
		case 0:
			ms = r.Range(1, 500)
		case 1:
			ms = r.Range(500, 11000)
		case 2:
			ms = r.Range(11000, 11999)
		default:
			ms = r.Range(12000, 12300) // reaches the handler's deadline: the call times out
		}
		return &sim.Step{Op: "slow", A: []int64{fam, int64(ms), 0}}
	default:
		return &sim.Step{Op: "slow", A: []int64{fam, int64(r.Range(6000, 30000)), 1}}
	}
}
