package dutysim

import (
	"context"
	"errors"
	"math/big"
	"time"

	eth2client "github.com/attestantio/go-eth2-client"
	eth2apiv1 "github.com/attestantio/go-eth2-client/api/v1"
	"github.com/attestantio/go-eth2-client/spec/phase0"
	spectypes "github.com/bloxapp/ssv-spec/types"
	ethtypes "github.com/ethereum/go-ethereum/core/types"
	"go.uber.org/zap"

	ssvtypes "github.com/bloxapp/ssv/protocol/v2/types"
)

// ---- beacon node stub -------------------------------------------------------------------------

type beaconStub struct {
	w       *world
	handler eth2client.EventHandlerFunc
}

// assignment computes the beacon node's current truth for (family, key) restricted to indices.
// Caller holds w.mu.
func (w *world) assignment(fam int, key uint64, idx []phase0.ValidatorIndex) map[dutyKey]bool {
	want := map[uint64]bool{}
	for _, i := range idx {
		want[uint64(i)] = true
	}
	res := map[dutyKey]bool{}
	switch fam {
	case famAtt:
		ver := uint64(0)
		if key > 0 {
			ver = uint64(w.depVer[key-1])
		}
		for i := 0; i < w.nv; i++ {
			if v := vidx(i); want[v] {
				res[dutyKey{v, key*slotsPerEpoch + mix(w.salt, 1, key, ver, v)%slotsPerEpoch}] = true
			}
		}
	case famProp:
		for s := key * slotsPerEpoch; s < (key+1)*slotsPerEpoch; s++ {
			h := mix(w.salt, 2, key, uint64(w.depVer[key]), s)
			if v := vidx(int((h >> 8) % uint64(w.nv))); h%100 < w.propPct && want[v] {
				res[dutyKey{v, s}] = true
			}
		}
	case famSync:
		for i := 0; i < w.nv; i++ {
			if v := vidx(i); want[v] && mix(w.salt, 3, key, v)%100 < w.syncPct {
				res[dutyKey{v, 0}] = true
			}
		}
	}
	return res
}

var errArmed = errors.New("stub: beacon node fetch failure")

// fetch is the common body of the three *Duties calls: it records the call, applies the fault
// armed for this family (fail / slow / overrun) and returns the assignment as of the call start.
func (b *beaconStub) fetch(ctx context.Context, fam int, epoch phase0.Epoch, idx []phase0.ValidatorIndex) (map[dutyKey]bool, error) {
	w := b.w
	key := uint64(epoch)
	if fam == famSync {
		key = w.periodOf(uint64(epoch))
	}
	w.mu.Lock()
	f := &fetchRec{fam: fam, key: key, epochArg: uint64(epoch), start: time.Now()}
	f.seq = len(w.fetches[fam])
	w.fetches[fam] = append(w.fetches[fam], f)
	res := w.assignment(fam, key, idx)
	fail, lat, over := w.armFail[fam], w.armSlow[fam], w.armOver[fam]
	w.armFail[fam], w.armSlow[fam], w.armOver[fam] = false, 0, false
	w.inflight++
	f.expEnd = f.start
	if lat > 0 {
		f.expEnd = f.start.Add(lat)
		if dl, ok := ctx.Deadline(); ok && !over && !f.expEnd.Before(dl) {
			f.expEnd = dl
		}
	}
	w.mu.Unlock()

	why := ""
	switch {
	case ctx.Err() != nil:
		why = "ctx-done"
	case lat > 0 && over:
		f.overrun = true
		time.Sleep(lat) // hung call: ignores its deadline
	case lat > 0:
		if dl, ok := ctx.Deadline(); ok && !time.Now().Add(lat).Before(dl) {
			<-ctx.Done() // only one wake-up cause: the deadline
			why = "timeout"
		} else {
			time.Sleep(lat)
			if ctx.Err() != nil {
				why = "ctx-done"
			}
		}
	}
	if why == "" && fail {
		why = "armed-failure"
	}
	w.mu.Lock()
	f.end, f.done, f.why = time.Now(), true, why
	f.ok = why == ""
	if f.ok {
		f.res = res
	}
	w.inflight--
	w.mu.Unlock()
	if !f.ok {
		return nil, errArmed
	}
	return res, nil
}

func (b *beaconStub) AttesterDuties(ctx context.Context, epoch phase0.Epoch, idx []phase0.ValidatorIndex) ([]*eth2apiv1.AttesterDuty, error) {
	res, err := b.fetch(ctx, famAtt, epoch, idx)
	if err != nil {
		return nil, err
	}
	var out []*eth2apiv1.AttesterDuty
	for _, k := range sortedKeys(res) {
		out = append(out, &eth2apiv1.AttesterDuty{PubKey: pubkey(k.v), Slot: phase0.Slot(k.slot), ValidatorIndex: phase0.ValidatorIndex(k.v),
			CommitteeIndex: 1, CommitteeLength: 128, CommitteesAtSlot: 4, ValidatorCommitteeIndex: k.v % 128})
	}
	return out, nil
}

func (b *beaconStub) ProposerDuties(ctx context.Context, epoch phase0.Epoch, idx []phase0.ValidatorIndex) ([]*eth2apiv1.ProposerDuty, error) {
	res, err := b.fetch(ctx, famProp, epoch, idx)
	if err != nil {
		return nil, err
	}
	var out []*eth2apiv1.ProposerDuty
	for _, k := range sortedKeys(res) {
		out = append(out, &eth2apiv1.ProposerDuty{PubKey: pubkey(k.v), Slot: phase0.Slot(k.slot), ValidatorIndex: phase0.ValidatorIndex(k.v)})
	}
	return out, nil
}

func (b *beaconStub) SyncCommitteeDuties(ctx context.Context, epoch phase0.Epoch, idx []phase0.ValidatorIndex) ([]*eth2apiv1.SyncCommitteeDuty, error) {
	res, err := b.fetch(ctx, famSync, epoch, idx)
	if err != nil {
		return nil, err
	}
	var out []*eth2apiv1.SyncCommitteeDuty
	for _, k := range sortedKeys(res) {
		out = append(out, &eth2apiv1.SyncCommitteeDuty{PubKey: pubkey(k.v), ValidatorIndex: phase0.ValidatorIndex(k.v),
			ValidatorSyncCommitteeIndices: []phase0.CommitteeIndex{phase0.CommitteeIndex(k.v % 512)}})
	}
	return out, nil
}

func (b *beaconStub) Events(_ context.Context, _ []string, h eth2client.EventHandlerFunc) error {
	b.handler = h
	return nil
}

func (b *beaconStub) SubmitBeaconCommitteeSubscriptions(context.Context, []*eth2apiv1.BeaconCommitteeSubscription) error {
	return nil
}

func (b *beaconStub) SubmitSyncCommitteeSubscriptions(context.Context, []*eth2apiv1.SyncCommitteeSubscription) error {
	return nil
}

// ---- validator controller / execution client / recorder ------------------------------------------

type vcStub struct{ w *world }

func (c vcStub) CommitteeActiveIndices(phase0.Epoch) []phase0.ValidatorIndex {
	return c.w.activeIndices()
}
func (c vcStub) AllActiveIndices(phase0.Epoch, bool) []phase0.ValidatorIndex {
	return c.w.activeIndices()
}
func (c vcStub) GetOperatorShares() []*ssvtypes.SSVShare { return nil }

type elStub struct{}

func (elStub) BlockByNumber(context.Context, *big.Int) (*ethtypes.Block, error) {
	return nil, errors.New("stub: execution client unused")
}

// executeDuty is the ExecuteDuty callback: the observation point of the property.
func (w *world) executeDuty(_ *zap.Logger, duty *spectypes.Duty) {
	w.mu.Lock()
	w.disp = append(w.disp, dispRec{role: duty.Type, v: uint64(duty.ValidatorIndex), slot: uint64(duty.Slot), at: time.Now()})
	w.mu.Unlock()
}
