package dutysim

import (
	"fmt"
	"sort"
	"time"

	spectypes "github.com/bloxapp/ssv-spec/types"
)

// The reference is written from the property statement only. For a duty (role, validator, slot),
// T = start (tick) of the slot, K = its epoch (attester, proposer) or period (sync):
//   MUST     : the latest fetch for K that completed successfully strictly before T contains it and
//              nothing invalidated K (reorg touching K, indices change) since that fetch started;
//   MUST-NOT : already dispatched; dispatched outside its slot; contained neither in the latest
//              successful fetch completed before T nor in one completed between T and the dispatch;
//   MAY      : everything else (invalidated and not yet re-fetched, fetched only at/after the tick).

func sortedKeys(m map[dutyKey]bool) []dutyKey {
	ks := make([]dutyKey, 0, len(m))
	for k := range m {
		ks = append(ks, k)
	}
	sort.Slice(ks, func(i, j int) bool {
		if ks[i].slot != ks[j].slot {
			return ks[i].slot < ks[j].slot
		}
		return ks[i].v < ks[j].v
	})
	return ks
}

func (w *world) famKey(fam int, slot uint64) uint64 {
	if fam == famSync {
		return w.periodOf(epochOf(slot))
	}
	return epochOf(slot)
}

// lastOK: the most recent successful fetch for (fam,key) completed strictly before T.
func (w *world) lastOK(fam int, key uint64, T time.Time) *fetchRec {
	var best *fetchRec
	for _, f := range w.fetches[fam] {
		if f.done && f.ok && f.key == key && f.end.Before(T) {
			best = f // program order of one handler goroutine = completion order
		}
	}
	return best
}

// effective: a notice injected at t while the family's handler is inside a beacon call (or a chain
// of back-to-back calls of one tick) reaches the handler only when that chain ends; the notice
// is treated as occurring anywhere in [t, effective(t)].
func (w *world) effective(fam int, t time.Time) time.Time {
	eff := t
	for _, f := range w.fetches[fam] { // program order: chained calls follow each other
		if f.done && !f.start.After(eff) && f.end.After(eff) {
			eff = f.end
		} else if !f.done && !f.start.After(eff) {
			eff = f.expEnd
		}
	}
	return eff
}

func (w *world) invalidated(fam int, key uint64, from, to time.Time) bool {
	in := func(ts []time.Time) bool {
		for _, t := range ts {
			if !t.After(to) && !w.effective(fam, t).Before(from) {
				return true
			}
		}
		return false
	}
	return in(w.inval[fam][key]) || in(w.invalAll)
}

// waived: the family's handler was stuck in a beacon call that ignored its deadline while the tick
// of slot s passed; nothing can be demanded for that tick (and a late attester dispatch is MAY).
func (w *world) waived(fam int, s uint64) bool {
	T := w.slotStart(s)
	for _, f := range w.fetches[fam] {
		if f.overrun && f.start.Before(T) && (!f.done || !f.end.Before(T)) {
			return true
		}
	}
	return false
}

// wholeSlot: the handler was inside one beacon call (or a back-to-back chain of calls) from the tick of slot s (or earlier) until the
// slot was over. A fetch slower than a whole slot is outside the statement's quantifier (ticks,
// reorg notices, indices changes, fetch failures): the tick is MAY, counted as a diagnostic.
func (w *world) wholeSlot(fam int, s uint64) bool {
	T := w.slotStart(s)
	return !w.effective(fam, T).Before(T.Add(slotDur))
}

// blockedOver: the family's handler was inside a beacon call at instant t (it could not act then).
func (w *world) blockedOver(fam int, t time.Time) bool {
	for _, f := range w.fetches[fam] {
		if f.start.Before(t) && (!f.done || !f.end.Before(t)) {
			return true
		}
	}
	return false
}

func inRes(f *fetchRec, fam int, v, slot uint64) bool {
	if f == nil {
		return false
	}
	if fam == famSync {
		return f.res[dutyKey{v, 0}]
	}
	return f.res[dutyKey{v, slot}]
}

func dkey(r spectypes.BeaconRole, v, slot uint64) string { return fmt.Sprintf("%d/%d/%d", r, v, slot) }

// judgeDispatches applies the MUST-NOT rules to the dispatch records not judged yet. Caller: driver
// goroutine after synctest.Wait (no scheduler goroutine is running).
func (w *world) judgeDispatches() {
	d := w.d
	fresh := append([]dispRec(nil), w.disp[w.newDisp:]...)
	w.newDisp = len(w.disp)
	sortDisp(fresh)
	for _, r := range fresh {
		fam := roleFam(r.role)
		d.Logf("dispatch %s v%d slot=%d at %s", r.role, r.v, r.slot, w.rel(r.at))
		w.nDispatched++
		if fam < 0 {
			d.Violate("dispatch-unassigned", "role", "dispatch of role %s v%d slot %d: no such duty was ever assigned", r.role, r.v, r.slot)
			return
		}
		k := dkey(r.role, r.v, r.slot)
		w.seen[k]++
		if w.seen[k] > 1 {
			d.Violate("double-dispatch", famNames[fam], "%s duty of validator %d for slot %d dispatched %d times (again at %s)", r.role, r.v, r.slot, w.seen[k], w.rel(r.at))
			return
		}
		T := w.slotStart(r.slot)
		if r.at.Before(T) || !r.at.Before(T.Add(slotDur)) {
			late := fam == famAtt && w.blockedOver(fam, T.Add(slotDur)) && !r.at.Before(T) && r.at.Before(T.Add((slotsPerEpoch+1)*slotDur))
			if !late {
				d.Violate("dispatch-outside-slot", famNames[fam], "%s duty of validator %d for slot %d dispatched at %s, not during its slot", r.role, r.v, r.slot, w.rel(r.at))
				return
			}
			d.Probe("diag-attester-late-dispatch-after-slow-fetch")
		}
		// Empty active set: the assignment is trivially empty and there is nothing to fetch. Once the
		// notice that removed the last validator has reached the (idle) handler and one full tick has
		// been processed since, any dispatch is MUST-NOT; the first tick after the notice stays MAY
		// (handlers execute before they reset). Contained finding: the run goes on.
		if !w.emptySince.IsZero() && !r.at.Before(w.emptySince) {
			cur := uint64(w.net.EstimatedSlotAtTime(r.at.Unix())) // slot whose tick decided this dispatch
			if cur > 0 && w.slotStart(cur-1).After(w.effective(fam, w.emptySince)) {
				d.Finding("dispatch-unassigned", r.role.String()+"/active-set-empty", "%s duty of validator %d for slot %d dispatched at %s although the operator has had no active validator since the indices-change notice at %s (at least one full tick processed since)", r.role, r.v, r.slot, w.rel(r.at), w.rel(w.emptySince))
				d.Probe("dispatch-while-active-set-empty")
				continue
			}
			d.Probe("may-dispatch-at-first-tick-after-empty-set")
		}
		key := w.famKey(fam, r.slot)
		ok := inRes(w.lastOK(fam, key, T), fam, r.v, r.slot)
		for _, f := range w.fetches[fam] {
			if !ok && f.done && f.ok && f.key == key && !f.end.Before(T) && !f.end.After(r.at) {
				ok = inRes(f, fam, r.v, r.slot)
			}
		}
		if !ok {
			d.Violate("dispatch-unassigned", famNames[fam], "%s duty of validator %d for slot %d dispatched at %s but it is absent from the most recently fetched assignment of %s key %d", r.role, r.v, r.slot, w.rel(r.at), famNames[fam], key)
			return
		}
		if w.invalidated(fam, key, w.lastFetchStart(fam, key, T), T) {
			d.Probe("may-dispatched-stale-after-invalidation")
		}
	}
}

func (w *world) lastFetchStart(fam int, key uint64, T time.Time) time.Time {
	if f := w.lastOK(fam, key, T); f != nil {
		return f.start
	}
	return T
}

var famRoles = [nFam][]spectypes.BeaconRole{
	{spectypes.BNRoleAttester, spectypes.BNRoleAggregator},
	{spectypes.BNRoleProposer},
	{spectypes.BNRoleSyncCommittee, spectypes.BNRoleSyncCommitteeContribution},
}

// judgeSlots checks the MUST set of every slot that has ended (slots < upTo).
func (w *world) judgeSlots(upTo uint64) {
	d := w.d
	for ; w.judgedSlot < upTo && d.V == nil; w.judgedSlot++ {
		s := w.judgedSlot
		T := w.slotStart(s)
		for fam := 0; fam < nFam; fam++ {
			key := w.famKey(fam, s)
			f := w.lastOK(fam, key, T)
			if f == nil {
				d.Probe("may-no-fetch-before-tick-" + famNames[fam])
				continue
			}
			if w.invalidated(fam, key, f.start, T) {
				d.Probe("may-invalidated-not-refetched-" + famNames[fam])
				if w.noRefetchAfterIdx(fam, key, T) {
					d.Probe("diag-no-refetch-attempt-after-indices-change-" + famNames[fam])
				}
				if fam != famSync && s%slotsPerEpoch == slotsPerEpoch-1 {
					d.Probe("diag-epoch-ended-without-refetch-" + famNames[fam])
				}
				continue
			}
			if w.waived(fam, s) {
				d.Probe("may-handler-hung-" + famNames[fam])
				continue
			}
			if w.wholeSlot(fam, s) {
				d.Probe("diag-slot-spent-inside-fetch-" + famNames[fam])
				continue
			}
			for _, k := range sortedKeys(f.res) {
				if fam != famSync && k.slot != s {
					continue
				}
				for _, role := range famRoles[fam] {
					d.Probe("must-checked-" + famNames[fam])
					if w.seen[dkey(role, k.v, s)] == 0 {
						d.Violate("must-dispatch-missed", famNames[fam], "%s duty of validator %d for slot %d was in the assignment fetched successfully at %s (no invalidation since) but was not dispatched during its slot", role, k.v, s, w.rel(f.end))
						return
					}
				}
			}
		}
	}
}

// noRefetchAfterIdx (diagnostic only): an indices change happened more than two slots before T, the
// handler was not stuck in a call, and still no fetch for (fam,key) was even attempted afterwards.
func (w *world) noRefetchAfterIdx(fam int, key uint64, T time.Time) bool {
	if len(w.invalAll) == 0 {
		return false
	}
	t := w.effective(fam, w.invalAll[len(w.invalAll)-1])
	if !t.Add(2 * slotDur).Before(T) {
		return false
	}
	for _, f := range w.fetches[fam] {
		if f.key == key && !f.start.Before(t) || f.overrun && !f.end.Before(t) {
			return false
		}
	}
	return true
}
