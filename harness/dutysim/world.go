// Package dutysim: C16 — each assigned beacon duty is dispatched exactly once, at its slot.
// Real: duties.NewScheduler + Start (attester / proposer / sync-committee / voluntary-exit handlers,
// event feeds, SlotTicker, HandleHeadEvent, ExecuteDuties), dutystore, slotticker on the synctest
// fake clock, beacon.Network arithmetic. Stubs: beacon node, validator controller, duty recorder.
package dutysim

import (
	"fmt"
	"sort"
	"sync"
	"time"

	"github.com/attestantio/go-eth2-client/spec/phase0"
	spectypes "github.com/bloxapp/ssv-spec/types"

	"github.com/bloxapp/ssv/protocol/v2/blockchain/beacon"

	"verifharness/sim"
)

// duty families (one handler each)
const (
	famAtt = iota
	famProp
	famSync
	nFam
)

var famNames = []string{"attester", "proposer", "sync"}

const (
	slotDur       = 12 * time.Second
	slotsPerEpoch = 32
)

type dutyKey struct {
	v    uint64
	slot uint64 // 0 for sync-committee membership (whole period)
}

// fetchRec is one call of BeaconNode.*Duties as seen by the stub.
type fetchRec struct {
	seq        int
	fam        int
	key        uint64 // epoch (attester, proposer) or period (sync)
	epochArg   uint64
	start, end time.Time
	expEnd     time.Time // instant at which the call will return (known when it starts)
	ok         bool
	overrun    bool // the call ignored its context deadline (hung beacon call)
	done       bool
	why        string
	res        map[dutyKey]bool
}

// dispRec is one call of the ExecuteDuty callback.
type dispRec struct {
	role spectypes.BeaconRole
	v    uint64
	slot uint64
	at   time.Time
}

type world struct {
	d   *sim.D
	net beacon.Network

	mu       sync.Mutex // guards everything below (stubs run in scheduler goroutines)
	nv       int        // validator universe 1..nv (index = 100+i)
	active   []bool
	depVer   map[uint64]int64 // version of the dependent root "current during epoch E"
	sentVer  map[uint64]int64 // version last revealed to the scheduler by a head event
	salt     uint64
	propPct  uint64
	syncPct  uint64
	armFail  [nFam]bool
	armSlow  [nFam]time.Duration
	armOver  [nFam]bool
	fetches  [nFam][]*fetchRec // per family: one goroutine each, so program order
	inflight int
	disp     []dispRec
	newDisp  int       // index of first dispatch not yet judged
	newFetch [nFam]int // index of first fetch not yet logged

	// reference-model inputs
	inval    [nFam]map[uint64][]time.Time // invalidation instants per family/key
	invalAll []time.Time                  // indices changes invalidate everything
	// emptySince: instant of the indices-change notice that left NO active validator (zero while the
	// active set is non-empty)
	emptySince time.Time

	// oracle bookkeeping
	seen        map[string]int
	judgedSlot  uint64 // all slots < judgedSlot had their MUST set checked
	firstSlot   uint64
	nDispatched int
	nEvents     int
	eventInBusy bool
}

func (w *world) slotStart(s uint64) time.Time { return w.net.GetSlotStartTime(phase0.Slot(s)) }
func (w *world) curSlot() uint64              { return uint64(w.net.EstimatedCurrentSlot()) }
func epochOf(s uint64) uint64                 { return s / slotsPerEpoch }
func (w *world) periodOf(e uint64) uint64 {
	return w.net.EstimatedSyncCommitteePeriodAtEpoch(phase0.Epoch(e))
}

// rel renders an instant as slot+offset (deterministic, fake clock only).
func (w *world) rel(t time.Time) string {
	s := uint64(w.net.EstimatedSlotAtTime(t.Unix()))
	return fmt.Sprintf("s%d+%dms", s, t.Sub(w.slotStart(s)).Milliseconds())
}

func mix(a ...uint64) uint64 {
	h := uint64(0x9e3779b97f4a7c15)
	for _, x := range a {
		h ^= x + 0x9e3779b97f4a7c15 + (h << 6) + (h >> 2)
		h = (h ^ (h >> 30)) * 0xbf58476d1ce4e5b9
		h = (h ^ (h >> 27)) * 0x94d049bb133111eb
		h ^= h >> 31
	}
	return h
}

func vidx(i int) uint64 { return uint64(100 + i) }

func pubkey(v uint64) (pk phase0.BLSPubKey) {
	pk[0], pk[1] = byte(v), byte(v>>8)
	return
}

func (w *world) activeIndices() []phase0.ValidatorIndex {
	w.mu.Lock()
	defer w.mu.Unlock()
	var out []phase0.ValidatorIndex
	for i, a := range w.active {
		if a {
			out = append(out, phase0.ValidatorIndex(vidx(i)))
		}
	}
	return out
}

func (w *world) root(e uint64) (r phase0.Root) {
	h := mix(w.salt, 9, e, uint64(w.depVer[e]))
	for i := 0; i < 8; i++ {
		r[i] = byte(h >> (8 * i))
	}
	r[31] = 1 // never the zero root
	return
}

// bumpDep changes the dependent root that is "current" during epoch e and records which
// assignments the beacon-API semantics say depend on it: attester(e+1), proposer(e). A reorg is
// also (leniently) counted as invalidating the not-yet-started next sync period.
func (w *world) bumpDep(e uint64, now time.Time) {
	w.depVer[e]++
	w.invalDep(e, now)
}

// invalDep records an invalidation instant for everything that depends on dep[e]; called when the
// root changes and again when a head event reveals the change to the scheduler (the notice).
func (w *world) invalDep(e uint64, now time.Time) {
	w.inval[famAtt][e+1] = append(w.inval[famAtt][e+1], now)
	w.inval[famProp][e] = append(w.inval[famProp][e], now)
	p := w.periodOf(e) + 1
	w.inval[famSync][p] = append(w.inval[famSync][p], now)
}

func roleFam(r spectypes.BeaconRole) int {
	switch r {
	case spectypes.BNRoleAttester, spectypes.BNRoleAggregator:
		return famAtt
	case spectypes.BNRoleProposer:
		return famProp
	case spectypes.BNRoleSyncCommittee, spectypes.BNRoleSyncCommitteeContribution:
		return famSync
	}
	return -1
}

func sortDisp(x []dispRec) {
	sort.SliceStable(x, func(i, j int) bool {
		a, b := x[i], x[j]
		if !a.at.Equal(b.at) {
			return a.at.Before(b.at)
		}
		if a.role != b.role {
			return a.role < b.role
		}
		if a.slot != b.slot {
			return a.slot < b.slot
		}
		return a.v < b.v
	})
}
