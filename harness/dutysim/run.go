package dutysim

import (
	"context"
	"fmt"
	"os"
	"testing"
	"testing/synctest"
	"time"

	eth2apiv1 "github.com/attestantio/go-eth2-client/api/v1"
	"github.com/attestantio/go-eth2-client/spec/phase0"
	spectypes "github.com/bloxapp/ssv-spec/types"
	"go.uber.org/zap"

	"github.com/bloxapp/ssv/networkconfig"
	"github.com/bloxapp/ssv/operator/duties"
	"github.com/bloxapp/ssv/operator/duties/dutystore"
	"github.com/bloxapp/ssv/operator/slotticker"
	"github.com/bloxapp/ssv/protocol/v2/blockchain/beacon"

	"verifharness/sim"
)

func run(t *testing.T, d *sim.D) {
	if os.Getenv("DUTYSIM_DUMP") != "" {
		d.KeepLog = true
		defer func() {
			for _, l := range d.Lines {
				fmt.Println("  |", l)
			}
		}()
	}
	synctest.Test(t, func(t *testing.T) { runBubble(d) })
}

type rig struct {
	w        *world
	bn       *beaconStub
	ctx      context.Context
	idxCh    chan struct{}
	headBusy bool
	idxBusy  bool
}

func runBubble(d *sim.D) {
	c := d.Cfg
	w := &world{d: d, net: beacon.NewNetwork(spectypes.MainNetwork), nv: int(c.Get("nv", 4)), depVer: map[uint64]int64{}, sentVer: map[uint64]int64{},
		salt: uint64(c.Get("salt", 1)), propPct: uint64(c.Get("propPct", 50)), syncPct: uint64(c.Get("syncPct", 80)), seen: map[string]int{}}
	if w.nv < 1 || w.nv > 6 {
		w.nv = 4
	}
	for f := range w.inval {
		w.inval[f] = map[uint64][]time.Time{}
	}
	w.active = make([]bool, w.nv)
	for i := range w.active {
		w.active[i] = c.Get("mask", 63)&(1<<uint(i)) != 0
	}
	if len(w.activeIndices()) == 0 {
		w.active[0] = true
	}
	period := uint64(c.Get("period", 1))
	if period < 1 || period > 8 {
		period = 1
	}
	boundary := period * w.net.EpochsPerSyncCommitteePeriod() * slotsPerEpoch
	clamp := func(v, lo, hi int64) int64 { return max(lo, min(hi, v)) }
	pre := clamp(c.Get("pre", 2), 1, 4)
	w.firstSlot = boundary - uint64(pre)*slotsPerEpoch
	startMs := clamp(c.Get("startms", 6000), 1, 11998)
	startAt := w.slotStart(w.firstSlot - 1).Add(time.Duration(startMs) * time.Millisecond)
	time.Sleep(time.Until(startAt)) // free: nothing else exists in the bubble yet
	w.judgedSlot = w.firstSlot

	ctx, cancel := context.WithCancel(context.Background())
	r := &rig{w: w, bn: &beaconStub{w: w}, ctx: ctx, idxCh: make(chan struct{})}
	netCfg := networkconfig.NetworkConfig{Name: "dutysim", Beacon: w.net}
	logger := zap.NewNop()
	if os.Getenv("VERIF_DUTYLOG") != "" { // debugging aid: the scheduler's own debug log on stderr (not part of the event log)
		logger, _ = zap.NewDevelopment()
	}
	sched := duties.NewScheduler(&duties.SchedulerOptions{
		Ctx: ctx, BeaconNode: r.bn, ExecutionClient: elStub{}, Network: netCfg, ValidatorController: vcStub{w},
		ExecuteDuty: w.executeDuty, IndicesChg: r.idxCh, DutyStore: dutystore.New(),
		SlotTickerProvider: func() slotticker.SlotTicker {
			return slotticker.New(logger, slotticker.Config{SlotDuration: netCfg.SlotDurationSec(), GenesisTime: netCfg.GetGenesisTime()})
		},
	})
	d.Logf("start nv=%d active=%v first=%d boundary=%d at %s", w.nv, w.active, w.firstSlot, boundary, w.rel(time.Now()))
	if err := sched.Start(ctx, logger); err != nil {
		panic(err)
	}
	r.settle("start")

	epochs := uint64(clamp(c.Get("epochs", 4), pre+1, 8))
	g := &genState{w: w, end: w.slotStart(w.firstSlot + epochs*slotsPerEpoch), advNext: true}
	for {
		s, ok := d.Next(g.next)
		if !ok {
			break
		}
		r.step(s)
	}
	// after the last step the simulation idles, slot by slot, until the configured end (so a minimised
	// program needs only the events that matter, not the advances that carry it to the violation)
	for d.V == nil && time.Now().Before(g.end) {
		time.Sleep(time.Until(w.slotStart(w.curSlot() + 1).Add(6 * time.Second)))
		r.settle("idle")
	}
	// quiesce: let hung calls and the head goroutine finish, then stop after the 1/3-slot point so that
	// no dispatch goroutine is left waiting for the slot's release
	for i := 0; i < 8 && (w.inflight > 0 || r.headBusy || r.idxBusy); i++ {
		time.Sleep(slotDur)
		r.settle("drain")
	}
	cur := w.curSlot()
	time.Sleep(time.Until(w.slotStart(cur + 1).Add(6 * time.Second)))
	r.settle("end")
	cancel()
	_ = sched.Wait()
	synctest.Wait()
	d.SimTime = time.Since(startAt)
	d.Nontriv = w.curSlot()-w.firstSlot >= 64 && w.nEvents >= 3 && w.nDispatched >= 20
}

// settle: wait for quiescence, then log what happened (canonical order) and judge it.
func (r *rig) settle(op string) {
	synctest.Wait()
	w, d := r.w, r.w.d
	n0 := w.nDispatched
	for fam := 0; fam < nFam; fam++ {
		for w.newFetch[fam] < len(w.fetches[fam]) && w.fetches[fam][w.newFetch[fam]].done {
			f := w.fetches[fam][w.newFetch[fam]]
			w.newFetch[fam]++
			d.Logf("fetch %s key=%d arg=%d %s..%s ok=%v %s n=%d", famNames[fam], f.key, f.epochArg, w.rel(f.start), w.rel(f.end), f.ok, f.why, len(f.res))
			d.Probe("fetch-" + famNames[fam])
			if !f.ok {
				d.Fault("fetch-" + f.why)
			} else if f.overrun {
				d.Fault("fetch-hung-past-deadline")
			} else if f.end.After(f.start) {
				d.Fault("fetch-slow")
			}
		}
	}
	if d.V == nil {
		w.judgeDispatches()
	}
	if d.V == nil {
		w.judgeSlots(w.curSlot())
	}
	cur := w.curSlot()
	d.State("sched", op, fmt.Sprintf("e%d s%d act%v infl%d arm%v%v disp%d", int64(epochOf(cur))-int64(epochOf(w.firstSlot)), cur%slotsPerEpoch,
		w.active, w.inflight, w.armFail, w.armSlow != [nFam]time.Duration{}, w.nDispatched-n0))
}

// mayInject keeps one cause in flight: while a handler is inside a beacon call, at most one event
// may be queued for it, and only if the call returns before the next tick.
func (r *rig) mayInject() bool {
	w := r.w
	if w.inflight == 0 {
		w.eventInBusy = false
		return true
	}
	if w.eventInBusy {
		return false
	}
	// a handler chains calls (current epoch, then next epoch) before it returns to its select: with a
	// slow-call fault still armed the chain could outlast the next tick and the handler would then find
	// the tick AND the queued event ready - Go picks one at random (seen once under heavy load as a
	// determinism mismatch of the thorough tier)
	for fam := 0; fam < nFam; fam++ {
		if w.armSlow[fam] != 0 {
			return false
		}
	}
	next := w.slotStart(w.curSlot() + 1)
	for fam := 0; fam < nFam; fam++ {
		for _, f := range w.fetches[fam] {
			// the call must have started in this slot (no tick already pending for the handler) and
			// return before the next tick
			if !f.done && (!f.expEnd.Before(next) || f.start.Before(w.slotStart(w.curSlot()))) {
				return false
			}
		}
	}
	w.eventInBusy = true
	return true
}

func (r *rig) step(s sim.Step) {
	w, d := r.w, r.w.d
	now := time.Now()
	switch s.Op {
	case "adv":
		ms := s.Arg(0)
		if ms < 1 {
			ms = 1
		}
		if ms > 60000 {
			ms = 60000
		}
		time.Sleep(time.Duration(ms) * time.Millisecond)
		if time.Since(w.slotStart(w.curSlot())) == 0 { // never act exactly on a tick
			time.Sleep(time.Millisecond)
		}
		d.Logf("adv -> %s", w.rel(time.Now()))
	case "head":
		mode := (s.Arg(0)%4 + 4) % 4
		e := epochOf(w.curSlot())
		if mode == 3 { // the chain reorganises, no head event yet: noticed at the next head
			w.bumpDep(e, now)
			d.Fault("reorg-silent")
			d.Logf("bump dep[%d] silently at %s", e, w.rel(now))
			break
		}
		if r.headBusy || !r.mayInject() {
			d.Probe("skipped-head")
			break
		}
		switch mode {
		case 1:
			w.bumpDep(e, now)
			d.Fault("reorg-current")
		case 2:
			w.bumpDep(e-1, now)
			w.bumpDep(e, now)
			d.Fault("reorg-previous")
		}
		for _, x := range []uint64{e - 1, e} { // a head that reveals a changed root is the reorg notice
			if v, ok := w.sentVer[x]; ok && v != w.depVer[x] {
				w.invalDep(x, now)
			}
			w.sentVer[x] = w.depVer[x]
		}
		ev := &eth2apiv1.Event{Topic: "head", Data: &eth2apiv1.HeadEvent{Slot: phase0.Slot(w.curSlot()),
			CurrentDutyDependentRoot: w.root(e), PreviousDutyDependentRoot: w.root(e - 1)}}
		w.nEvents++
		r.headBusy = true
		go func() {
			r.bn.handler(ev)
			w.mu.Lock()
			r.headBusy = false
			w.mu.Unlock()
		}()
		d.Logf("head mode=%d at %s", mode, w.rel(now))
	case "idx", "idxset":
		if r.idxBusy || !r.mayInject() {
			d.Probe("skipped-idx")
			break
		}
		if s.Op == "idx" { // toggle one validator; removing the last one empties the active set
			i := int((s.Arg(0)%int64(w.nv) + int64(w.nv)) % int64(w.nv))
			w.active[i] = !w.active[i]
		} else { // set the whole active set from a mask (0 = no active validator at all)
			for i := range w.active {
				w.active[i] = s.Arg(0)&(1<<uint(i)) != 0
			}
		}
		if len(w.activeIndices()) == 0 {
			if w.emptySince.IsZero() {
				w.emptySince = now
				d.Fault("indices-change-to-empty-set")
			}
		} else {
			w.emptySince = time.Time{}
		}
		w.invalAll = append(w.invalAll, now)
		w.nEvents++
		d.Fault("indices-change")
		r.idxBusy = true
		go func() {
			select {
			case r.idxCh <- struct{}{}:
			case <-r.ctx.Done():
			}
			w.mu.Lock()
			r.idxBusy = false
			w.mu.Unlock()
		}()
		d.Logf("%s %d -> %v at %s", s.Op, s.Arg(0), w.active, w.rel(now))
	case "fail":
		fam := int((s.Arg(0)%nFam + nFam) % nFam)
		w.armFail[fam] = true
		d.Logf("arm fail %s", famNames[fam])
	case "slow":
		fam := int((s.Arg(0)%nFam + nFam) % nFam)
		ms := s.Arg(1)
		if ms < 1 {
			ms = 1
		}
		if ms > 40000 {
			ms = 40000
		}
		w.armSlow[fam], w.armOver[fam] = time.Duration(ms)*time.Millisecond, s.Arg(2) == 1
		d.Logf("arm slow %s %dms over=%v", famNames[fam], ms, s.Arg(2) == 1)
	}
	r.settle(s.Op)
}

var Specs = map[string]*sim.Spec{
	"C16": {
		Sim: "dutysim", GenConfig: genConfig, Run: run,
		Real: []string{"operator/duties: NewScheduler, Start, SlotTicker, HandleHeadEvent, ExecuteDuties, waitOneThirdOrValidBlock, EventFeed fan-out",
			"operator/duties: AttesterHandler, ProposerHandler, SyncCommitteeHandler, VoluntaryExitHandler (idle)", "operator/duties/dutystore (Duties, SyncCommitteeDuties)",
			"operator/slotticker (real timers on the synctest fake clock)", "protocol/v2/blockchain/beacon.Network arithmetic (mainnet parameters)", "networkconfig.NetworkConfig"},
		Stub: []string{"beacon node: assignments = pure function of (run salt, epoch/period, dependent-root version, requested indices); per-family armed failure / latency / hung call; head events injected by the driver",
			"validator controller: active index set toggled by the driver + indices-change channel", "execution client (unused)", "ExecuteDuty callback = recorder (role, validator, slot, fake timestamp)", "zap nop logger"},
		Rule: "start 2-4 epochs before a sync-committee period boundary, run 3-6 epochs; steps adv(ms)/head(mode none|current|previous|silent)/idx(toggle)/idxset(mask, 0 = empty active set)/fail(fam)/slow(fam,ms,hung) injected one at a time at boundary±1ms or inside slots; non-trivial = >=64 slots simulated, >=3 head/indices events delivered, >=20 dispatches; distinct = hash of sequence of (op, epoch/slot-in-epoch, active set, in-flight fetches, armed faults, dispatches during the step)",
		Assumptions: []string{"one external event in flight at a time; while a handler is inside a beacon call at most one event is queued and only if the call returns before the next tick (select with two ready cases is not seedable)",
			"a reorg notice is taken to invalidate attester(e+1)/proposer(e) of the changed dependent root and, leniently, the not-yet-started next sync period; an indices change invalidates every epoch and period",
			"a beacon call that ignores its deadline blocks its handler: ticks passed meanwhile are MAY, and an attester duty dispatched late (within one epoch) after such a call is MAY",
			"empty active set: once the indices-change notice that removed the last validator reached the idle handler and one full tick was processed, any dispatch is MUST-NOT (finding dispatch-unassigned, signature <ROLE>/active-set-empty, contained: the run continues); dispatches at the first tick after the notice are MAY",
			"ExecuteDuty for attester/sync-committee roles is invoked after the 1/3-slot (or head+200ms) release: 'at the tick' is judged as 'during the duty's own slot'"},
	},
}
