package runnersim

import (
	"fmt"

	"github.com/attestantio/go-eth2-client/api"
	"github.com/attestantio/go-eth2-client/spec"
	"github.com/attestantio/go-eth2-client/spec/altair"
	"github.com/attestantio/go-eth2-client/spec/bellatrix"
	"github.com/attestantio/go-eth2-client/spec/capella"
	"github.com/attestantio/go-eth2-client/spec/phase0"
	spectypes "github.com/bloxapp/ssv-spec/types"
	"github.com/bloxapp/ssv-spec/types/testingutils"
	ssz "github.com/ferranbt/fastssz"
	"github.com/herumi/bls-eth-go-binary/bls"
)

// subRec: one Submit* call (or a reconstructed pre-consensus signature handed to the beacon node).
type subRec struct {
	op      int
	kind    string
	objRoot [32]byte
	ok      bool // signature verifies under the validator public key
}

// fakeBeacon: scripted beacon node of one operator. Every Submit* and every reconstructed signature
// it receives is verified independently (herumi) against the validator public key — C05's oracle.
type fakeBeacon struct {
	w  *world
	op *operator
}

func (b *fakeBeacon) GetBeaconNetwork() spectypes.BeaconNetwork { return beaconNet }

func (b *fakeBeacon) DomainData(epoch phase0.Epoch, domain phase0.DomainType) (phase0.Domain, error) {
	return spectypes.ComputeETHDomain(domain, spectypes.GenesisForkVersion, spectypes.GenesisValidatorsRoot)
}

// judge verifies sig over obj under the validator key and records the submission.
func (b *fakeBeacon) judge(kind string, obj ssz.HashRoot, slot phase0.Slot, dt phase0.DomainType, sigBytes []byte, submission bool) {
	w := b.w
	d, _ := b.DomainData(beaconNet.EstimatedEpochAtSlot(slot), dt)
	root, err := spectypes.ComputeETHSigningRoot(obj, d)
	ok := false
	if err == nil {
		sig := &bls.Sign{}
		if sig.Deserialize(append([]byte(nil), sigBytes...)) == nil {
			ok = sig.VerifyByte(w.ks.ValidatorPK, root[:])
		}
	}
	or, _ := obj.HashTreeRoot()
	w.subs = append(w.subs, subRec{op: b.op.idx, kind: kind, objRoot: or, ok: ok})
	w.logf("beacon op=%d %s obj=%s sig-valid=%v", b.op.id, kind, hx(or[:]), ok)
	w.onSubmit(b.op, kind, or, ok, submission, slot)
}

func must(err error) {
	if err != nil {
		panic(err)
	}
}

func copyAtt(src *phase0.AttestationData) *phase0.AttestationData {
	raw, err := src.MarshalSSZ()
	must(err)
	d := &phase0.AttestationData{}
	must(d.UnmarshalSSZ(raw))
	return d
}

func copyBlock(src *capella.BeaconBlock) *capella.BeaconBlock {
	raw, err := src.MarshalSSZ()
	must(err)
	d := &capella.BeaconBlock{}
	must(d.UnmarshalSSZ(raw))
	return d
}

func copyAgg(src *phase0.AggregateAndProof) *phase0.AggregateAndProof {
	raw, err := src.MarshalSSZ()
	must(err)
	d := &phase0.AggregateAndProof{}
	must(d.UnmarshalSSZ(raw))
	return d
}

func copyContribution(src *altair.SyncCommitteeContribution) *altair.SyncCommitteeContribution {
	raw, err := src.MarshalSSZ()
	must(err)
	d := &altair.SyncCommitteeContribution{}
	must(d.UnmarshalSSZ(raw))
	return d
}

func (b *fakeBeacon) GetAttestationData(slot phase0.Slot, ci phase0.CommitteeIndex) (ssz.Marshaler, spec.DataVersion, error) {
	d := copyAtt(testingutils.TestingAttestationData)
	d.Slot, d.Index = slot, ci
	d.Target.Epoch = beaconNet.EstimatedEpochAtSlot(slot)
	d.Source.Epoch = d.Target.Epoch - 1
	if b.w.d.Cfg.Get("diverge", 0) == 1 { // operators see different heads, as in real life
		d.BeaconBlockRoot[31] = byte(b.op.idx)
	}
	return d, spec.DataVersionPhase0, nil
}

func (b *fakeBeacon) SubmitAttestation(att *phase0.Attestation) error {
	b.judge("attestation", att.Data, att.Data.Slot, spectypes.DomainAttester, att.Signature[:], true)
	return nil
}

func (b *fakeBeacon) GetBeaconBlock(slot phase0.Slot, graffiti, randao []byte) (ssz.Marshaler, spec.DataVersion, error) {
	b.judge("randao-reveal", spectypes.SSZUint64(beaconNet.EstimatedEpochAtSlot(slot)), slot, spectypes.DomainRandao, randao, false)
	blk := copyBlock(testingutils.TestingBeaconBlockCapella)
	blk.Slot = slot
	copy(blk.Body.RANDAOReveal[:], randao)
	if b.w.d.Cfg.Get("diverge", 0) == 1 {
		blk.StateRoot[31] = byte(b.op.idx)
	}
	return blk, spec.DataVersionCapella, nil
}

func (b *fakeBeacon) GetBlindedBeaconBlock(slot phase0.Slot, graffiti, randao []byte) (ssz.Marshaler, spec.DataVersion, error) {
	return nil, 0, fmt.Errorf("blinded blocks not offered by this node")
}

func (b *fakeBeacon) SubmitBeaconBlock(block *api.VersionedProposal, sig phase0.BLSSignature) error {
	if block.Capella == nil {
		b.w.d.Probe("diag-unexpected-block-version")
		return nil
	}
	b.judge("block", block.Capella, block.Capella.Slot, spectypes.DomainProposer, sig[:], true)
	return nil
}

func (b *fakeBeacon) SubmitBlindedBeaconBlock(block *api.VersionedBlindedProposal, sig phase0.BLSSignature) error {
	b.w.d.Probe("diag-unexpected-blinded-block")
	return nil
}

func (b *fakeBeacon) SubmitAggregateSelectionProof(slot phase0.Slot, ci phase0.CommitteeIndex, committeeLength uint64, index phase0.ValidatorIndex, slotSig []byte) (ssz.Marshaler, spec.DataVersion, error) {
	b.judge("selection-proof", spectypes.SSZUint64(slot), slot, spectypes.DomainSelectionProof, slotSig, false)
	a := copyAgg(testingutils.TestingAggregateAndProof)
	a.AggregatorIndex = index
	copy(a.SelectionProof[:], slotSig)
	a.Aggregate.Data.Slot, a.Aggregate.Data.Index = slot, ci
	return a, spec.DataVersionPhase0, nil
}

func (b *fakeBeacon) SubmitSignedAggregateSelectionProof(msg *phase0.SignedAggregateAndProof) error {
	b.judge("aggregate-and-proof", msg.Message, msg.Message.Aggregate.Data.Slot, spectypes.DomainAggregateAndProof, msg.Signature[:], true)
	return nil
}

func (b *fakeBeacon) GetSyncMessageBlockRoot(slot phase0.Slot) (phase0.Root, spec.DataVersion, error) {
	r := testingutils.TestingSyncCommitteeBlockRoot
	if b.w.d.Cfg.Get("diverge", 0) == 1 {
		r[31] = byte(b.op.idx)
	}
	return r, spec.DataVersionPhase0, nil
}

func (b *fakeBeacon) SubmitSyncMessage(msg *altair.SyncCommitteeMessage) error {
	b.judge("sync-message", spectypes.SSZBytes(msg.BeaconBlockRoot[:]), msg.Slot, spectypes.DomainSyncCommittee, msg.Signature[:], true)
	return nil
}

func (b *fakeBeacon) IsSyncCommitteeAggregator(proof []byte) (bool, error) { return true, nil }

func (b *fakeBeacon) SyncCommitteeSubnetID(index phase0.CommitteeIndex) (uint64, error) {
	return uint64(index) / (512 / 4), nil
}

func (b *fakeBeacon) GetSyncCommitteeContribution(slot phase0.Slot, proofs []phase0.BLSSignature, subnetIDs []uint64) (ssz.Marshaler, spec.DataVersion, error) {
	var out spectypes.Contributions
	for i, p := range proofs {
		sel := &altair.SyncAggregatorSelectionData{Slot: slot, SubcommitteeIndex: subnetIDs[i]}
		b.judge("contribution-selection-proof", sel, slot, spectypes.DomainSyncCommitteeSelectionProof, p[:], false)
		c := copyContribution(testingutils.TestingSyncCommitteeContributions[i%len(testingutils.TestingSyncCommitteeContributions)])
		c.Slot, c.SubcommitteeIndex = slot, subnetIDs[i]
		out = append(out, &spectypes.Contribution{SelectionProofSig: p, Contribution: *c})
	}
	return &out, spec.DataVersionBellatrix, nil
}

func (b *fakeBeacon) SubmitSignedContributionAndProof(c *altair.SignedContributionAndProof) error {
	b.judge("contribution-and-proof", c.Message, c.Message.Contribution.Slot, spectypes.DomainContributionAndProof, c.Signature[:], true)
	return nil
}

func (b *fakeBeacon) SubmitValidatorRegistration(pubkey []byte, feeRecipient bellatrix.ExecutionAddress, sig phase0.BLSSignature) error {
	return nil
}

func (b *fakeBeacon) SubmitVoluntaryExit(ve *phase0.SignedVoluntaryExit) error { return nil }
