package runnersim

import (
	"crypto/sha256"
	"fmt"
	"strings"

	"github.com/attestantio/go-eth2-client/spec/altair"
	"github.com/attestantio/go-eth2-client/spec/phase0"
	specqbft "github.com/bloxapp/ssv-spec/qbft"
	specssv "github.com/bloxapp/ssv-spec/ssv"
	spectypes "github.com/bloxapp/ssv-spec/types"
	"github.com/bloxapp/ssv-spec/types/testingutils"
	ssz "github.com/ferranbt/fastssz"
)

var preDomains = map[phase0.DomainType]spectypes.BeaconRole{
	spectypes.DomainRandao:                      spectypes.BNRoleProposer,
	spectypes.DomainSelectionProof:              spectypes.BNRoleAggregator,
	spectypes.DomainSyncCommitteeSelectionProof: spectypes.BNRoleSyncCommitteeContribution,
}
var postDomains = map[phase0.DomainType]spectypes.BeaconRole{
	spectypes.DomainAttester:             spectypes.BNRoleAttester,
	spectypes.DomainProposer:             spectypes.BNRoleProposer,
	spectypes.DomainAggregateAndProof:    spectypes.BNRoleAggregator,
	spectypes.DomainSyncCommittee:        spectypes.BNRoleSyncCommittee,
	spectypes.DomainContributionAndProof: spectypes.BNRoleSyncCommitteeContribution,
}
var kindRole = map[string]spectypes.BeaconRole{
	"attestation": spectypes.BNRoleAttester, "block": spectypes.BNRoleProposer, "aggregate-and-proof": spectypes.BNRoleAggregator,
	"sync-message": spectypes.BNRoleSyncCommittee, "contribution-and-proof": spectypes.BNRoleSyncCommitteeContribution,
}

func key(parts ...any) string { return fmt.Sprint(parts...) }

// valueByRoot: values proposed so far (from valid proposals in the pool), by their hash.
func (w *world) valueByRoot(root [32]byte) []byte {
	for _, pm := range w.pool {
		if pm.kind != "consensus" {
			continue
		}
		sm := &specqbft.SignedMessage{}
		if sm.Decode(pm.raw.Data) == nil && len(sm.FullData) > 0 && sha256.Sum256(sm.FullData) == root {
			return sm.FullData
		}
	}
	return nil
}

// noteDelivery: independent bookkeeping of what each operator has been handed (by valid messages
// only): quorum certificates for a value, and post-consensus partial signatures.
func (w *world) noteDelivery(m *poolMsg, to *operator) {
	if !m.valid {
		return
	}
	switch m.kind {
	case "consensus":
		sm := &specqbft.SignedMessage{}
		if sm.Decode(m.raw.Data) != nil || sm.Message.MsgType != specqbft.CommitMsgType {
			return
		}
		k := key(to.idx, "|", m.role, "|", sm.Message.Height)
		if len(sm.Signers) >= w.quorum() {
			if v := sm.FullData; len(v) > 0 {
				w.certified[k] = v
			}
			return
		}
		ck := key(k, "|", sm.Message.Round, "|", sm.Message.Root)
		if w.commitSeen[ck] == nil {
			w.commitSeen[ck] = map[spectypes.OperatorID]bool{}
		}
		w.commitSeen[ck][sm.Signers[0]] = true
		if len(w.commitSeen[ck]) >= w.quorum() && w.certified[k] == nil {
			if v := w.valueByRoot(sm.Message.Root); v != nil {
				w.certified[k] = v
			}
		}
	case "post":
		// counted for the liveness clause only once the receiver has signed its own post-consensus part
		pm := &spectypes.SignedPartialSignatureMessage{}
		if pm.Decode(m.raw.Data) != nil {
			return
		}
		if w.signedOnce[key("own-post|", to.idx, "|", m.role, "|", pm.Message.Slot)] {
			ck := key("post|", to.idx, "|", m.role, "|", pm.Message.Slot)
			if w.commitSeen[ck] == nil {
				w.commitSeen[ck] = map[spectypes.OperatorID]bool{}
			}
			w.commitSeen[ck][pm.Signer] = true
		}
	}
}

// expectedObjects: the duty objects contained in value v for the role (roots).
func expectedObjects(role spectypes.BeaconRole, v []byte) (roots map[[32]byte]bool, slot phase0.Slot, err error) {
	cd := &spectypes.ConsensusData{}
	if err = cd.Decode(v); err != nil {
		return nil, 0, err
	}
	roots = map[[32]byte]bool{}
	add := func(o ssz.HashRoot, e error) {
		if e != nil {
			err = e
			return
		}
		r, e2 := o.HashTreeRoot()
		if e2 != nil {
			err = e2
			return
		}
		roots[r] = true
	}
	switch role {
	case spectypes.BNRoleAttester:
		a, e := cd.GetAttestationData()
		add(a, e)
	case spectypes.BNRoleProposer:
		_, sr, e := cd.GetBlockData()
		if e != nil {
			_, sr, e = cd.GetBlindedBlockData()
		}
		add(sr, e)
	case spectypes.BNRoleAggregator:
		a, e := cd.GetAggregateAndProof()
		add(a, e)
	case spectypes.BNRoleSyncCommittee:
		r, e := cd.GetSyncCommitteeBlockRoot()
		add(spectypes.SSZBytes(r[:]), e)
	case spectypes.BNRoleSyncCommitteeContribution:
		cs, e := cd.GetSyncCommitteeContributions()
		if e != nil {
			return nil, 0, e
		}
		for _, c := range cs {
			cc := c.Contribution
			add(&altair.ContributionAndProof{AggregatorIndex: cd.Duty.ValidatorIndex, Contribution: &cc, SelectionProof: c.SelectionProofSig}, nil)
		}
	}
	return roots, cd.Duty.Slot, err
}

func (w *world) valueCheck(op *operator, role spectypes.BeaconRole, v []byte) error {
	km := &spyKM{KeyManager: testingutils.NewTestingKeyManager(), w: &world{d: w.d}, op: op.idx} // same operator-local rule, no recording
	vi := phase0.ValidatorIndex(testingutils.TestingValidatorIndex)
	pk, spk := op.share.ValidatorPubKey, op.share.SharePubKey
	switch role {
	case spectypes.BNRoleAttester:
		return specssv.AttesterValueCheckF(km, beaconNet, pk, vi, spk)(v)
	case spectypes.BNRoleProposer:
		return specssv.ProposerValueCheckF(km, beaconNet, pk, vi, spk)(v)
	case spectypes.BNRoleAggregator:
		return specssv.AggregatorValueCheckF(km, beaconNet, pk, vi)(v)
	case spectypes.BNRoleSyncCommittee:
		return specssv.SyncCommitteeValueCheckF(km, beaconNet, pk, vi)(v)
	default:
		return specssv.SyncCommitteeContributionValueCheckF(km, beaconNet, pk, vi)(v)
	}
}

// onSign: C03's oracle, evaluated on every validator-key signature released by operator i.
func (w *world) onSign(i int, obj ssz.HashRoot, objRoot, signRoot [32]byte, dt phase0.DomainType, err error) {
	if err != nil {
		return
	}
	op := w.ops[i]
	w.signs = append(w.signs, signRec{op: i, domainType: dt, objRoot: objRoot, signRoot: signRoot, ctx: op.doing})
	w.signedOnce[key("root|", i, "|", signRoot)] = true
	w.logf("sign op=%d domain=%x obj=%s while %q", op.id, dt[:], hx(objRoot[:]), op.doing)
	if w.prop != "C03" {
		if role, ok := postDomains[dt]; ok {
			if d := op.started[role]; d != nil {
				w.signedOnce[key("own-post|", i, "|", role, "|", d.Slot)] = true
			}
		}
		return
	}
	d := w.d
	if role, ok := preDomains[dt]; ok {
		// pre-consensus proofs: only on the call stack of a duty start of that role, bound to the duty's slot
		want := fmt.Sprintf("start-duty %s ", roleName(role))
		if !strings.HasPrefix(op.doing, want) {
			d.Violate("pre-consensus-signature-outside-duty-start", roleName(role), "op%d signed a %s pre-consensus proof while %q (not during a start of that duty)", op.id, roleName(role), op.doing)
			return
		}
		duty := op.started[role]
		var exp ssz.HashRoot
		switch role {
		case spectypes.BNRoleProposer:
			exp = spectypes.SSZUint64(beaconNet.EstimatedEpochAtSlot(duty.Slot))
		case spectypes.BNRoleAggregator:
			exp = spectypes.SSZUint64(duty.Slot)
		}
		if exp != nil {
			if er, _ := exp.HashTreeRoot(); er != objRoot {
				d.Violate("pre-consensus-signature-wrong-object", roleName(role), "op%d signed a %s proof that is not bound to the started duty's slot %d", op.id, roleName(role), duty.Slot)
			}
		} else if sel, ok := obj.(*altair.SyncAggregatorSelectionData); !ok || sel.Slot != duty.Slot {
			d.Violate("pre-consensus-signature-wrong-object", roleName(role), "op%d signed a contribution selection proof not bound to slot %d", op.id, duty.Slot)
		}
		d.Probe("pre-consensus-signature-judged")
		return
	}
	role, ok := postDomains[dt]
	if !ok {
		d.Violate("unexpected-validator-key-signature", fmt.Sprintf("%x", dt[:]), "op%d signed an object of domain %x although no such duty was started", op.id, dt[:])
		return
	}
	duty := op.started[role]
	if duty == nil {
		d.Violate("post-consensus-signature-without-duty", roleName(role), "op%d signed a %s duty object although it never started such a duty (while %q)", op.id, roleName(role), op.doing)
		return
	}
	v := w.certified[key(i, "|", role, "|", specqbft.Height(duty.Slot))]
	if v == nil {
		d.Violate("signature-before-decision", roleName(role), "op%d signed a %s duty object for slot %d although no quorum certificate for that height has reached it (while %q)", op.id, roleName(role), duty.Slot, op.doing)
		return
	}
	roots, slot, xerr := expectedObjects(role, v)
	if xerr != nil || slot != duty.Slot || !roots[objRoot] {
		d.Violate("signature-over-undecided-object", roleName(role), "op%d signed %s.. for role %s slot %d which is not contained in the decided value (value slot %d, err %v; while %q)", op.id, hx(objRoot[:]), roleName(role), duty.Slot, slot, xerr, op.doing)
		return
	}
	if verr := w.valueCheck(op, role, v); verr != nil {
		d.Violate("signature-over-invalid-value", roleName(role), "op%d signed a %s duty object although the decided value fails the duty's validity check: %v", op.id, roleName(role), verr)
		return
	}
	k := key("once|", i, "|", role, "|", duty.Slot, "|", objRoot)
	if w.signedOnce[k] {
		d.Violate("duty-object-signed-twice", roleName(role), "op%d signed the decided %s object for slot %d a second time (while %q)", op.id, roleName(role), duty.Slot, op.doing)
		return
	}
	w.signedOnce[k] = true
	w.signedOnce[key("own-post|", i, "|", role, "|", duty.Slot)] = true
	d.Probe("post-consensus-signature-judged")
}

// checkBroadcast: every broadcast partial-signature message must correspond to signing calls.
func (w *world) checkBroadcast(op *operator, m *spectypes.SSVMessage) {
	if w.prop != "C03" || m.MsgType != spectypes.SSVPartialSignatureMsgType {
		return
	}
	pm := &spectypes.SignedPartialSignatureMessage{}
	if pm.Decode(m.Data) != nil {
		return
	}
	for _, x := range pm.Message.Messages {
		if !w.signedOnce[key("root|", op.idx, "|", x.SigningRoot)] {
			w.d.Violate("partial-signature-broadcast-without-signing-call", roleName(m.MsgID.GetRoleType()), "op%d broadcast a partial signature over root %s.. that no signing call produced", op.id, hx(x.SigningRoot[:]))
		}
	}
}

// onSubmit: C05's oracle at the beacon-node seam.
func (w *world) onSubmit(op *operator, kind string, objRoot [32]byte, sigOK, submission bool, slot phase0.Slot) {
	if w.prop != "C05" {
		return
	}
	d := w.d
	if !sigOK {
		inv := "invalid-signature-submitted"
		if !submission {
			inv = "invalid-reconstructed-signature-used"
		}
		d.Violate(inv, kind, "op%d handed the beacon node a %s whose signature does not verify under the validator public key", op.id, kind)
		return
	}
	if !submission {
		d.Probe("pre-consensus-reconstruction-verified")
		return
	}
	d.Probe("submission-verified")
	role := kindRole[kind]
	v := w.certified[key(op.idx, "|", role, "|", specqbft.Height(slot))]
	roots, _, err := expectedObjects(role, v)
	if v == nil || err != nil || !roots[objRoot] {
		d.Violate("submitted-object-not-decided", kind, "op%d submitted a %s (slot %d) that is not the object of its decided value", op.id, kind, slot)
		return
	}
	k := key("sub|", op.idx, "|", role, "|", slot, "|", objRoot)
	if w.signedOnce[k] {
		d.Violate("submitted-twice", kind, "op%d submitted the same %s (slot %d) twice", op.id, kind, slot)
		return
	}
	w.signedOnce[k] = true
	w.signedOnce[key("subdone|", op.idx, "|", role, "|", slot)] = true
}

// livenessC05: after everything was delivered, an operator that was handed >= quorum correct
// post-consensus partial signatures (after producing its own) must have submitted.
func (w *world) livenessC05() {
	for _, op := range w.ops {
		for _, role := range roles {
			duty := op.started[role]
			if duty == nil {
				continue
			}
			got := w.commitSeen[key("post|", op.idx, "|", role, "|", duty.Slot)]
			if len(got) >= w.quorum() {
				w.d.Probe("liveness-clause-applies")
				if !w.signedOnce[key("subdone|", op.idx, "|", role, "|", duty.Slot)] {
					w.d.Violate("no-submission-despite-quorum", roleName(role), "op%d received correct post-consensus partial signatures from %d committee members for its decided %s duty (slot %d) but submitted nothing", op.id, len(got), roleName(role), duty.Slot)
				}
			}
		}
	}
}
