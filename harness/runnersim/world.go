// Package runnersim: duty-runner level simulation (regime A inside a synctest bubble for the clock).
// Real: validator.Validator (StartDuty / ProcessMessage routing), all duty runners from their real
// constructors, real QBFT controllers/instances, spec value checks, ConsensusData codecs,
// types.ReconstructSignature, ibft storage (C15). Stub: beacon node, transport, round timers,
// key manager = spy around the spec test signer, clock.
// Serves C03 (duty signatures only over decided data), C05 (only valid threshold signatures reach the
// beacon node, once), C15 (a started or decided height is never run again, also after restart).
package runnersim

import (
	"context"
	"encoding/hex"
	"fmt"
	"os"
	"runtime/debug"
	"sort"
	"sync"
	"time"

	"github.com/attestantio/go-eth2-client/spec/phase0"
	specqbft "github.com/bloxapp/ssv-spec/qbft"
	specssv "github.com/bloxapp/ssv-spec/ssv"
	spectypes "github.com/bloxapp/ssv-spec/types"
	"github.com/bloxapp/ssv-spec/types/testingutils"
	ssz "github.com/ferranbt/fastssz"
	"go.uber.org/zap"

	ibftstorage "github.com/bloxapp/ssv/ibft/storage"
	"github.com/bloxapp/ssv/protocol/v2/blockchain/beacon"
	"github.com/bloxapp/ssv/protocol/v2/qbft"
	"github.com/bloxapp/ssv/protocol/v2/qbft/controller"
	"github.com/bloxapp/ssv/protocol/v2/qbft/roundtimer"
	"github.com/bloxapp/ssv/protocol/v2/ssv/queue"
	"github.com/bloxapp/ssv/protocol/v2/ssv/runner"
	"github.com/bloxapp/ssv/protocol/v2/ssv/validator"
	ssvtypes "github.com/bloxapp/ssv/protocol/v2/types"
	"github.com/bloxapp/ssv/storage/basedb"

	"verifharness/sim"
)

var logger = zap.NewNop()

var (
	ksMu    sync.Mutex
	ksCache = map[int]*testingutils.TestKeySet{}
)

func keySet(n int) *testingutils.TestKeySet {
	ksMu.Lock()
	defer ksMu.Unlock()
	if k := ksCache[n]; k != nil {
		return k
	}
	var k *testingutils.TestKeySet
	switch n {
	case 7:
		k = testingutils.Testing7SharesSet()
	case 10:
		k = testingutils.Testing10SharesSet()
	case 13:
		k = testingutils.Testing13SharesSet()
	default:
		k = testingutils.Testing4SharesSet()
	}
	ksCache[n] = k
	return k
}

var beaconNet = spectypes.BeaconTestNetwork

var roles = []spectypes.BeaconRole{spectypes.BNRoleAttester, spectypes.BNRoleProposer, spectypes.BNRoleAggregator, spectypes.BNRoleSyncCommittee, spectypes.BNRoleSyncCommitteeContribution}

type capNet struct{ out []*spectypes.SSVMessage }

func (c *capNet) Broadcast(m *spectypes.SSVMessage) error { c.out = append(c.out, m); return nil }

type recTimer struct{ armed []specqbft.Round }

func (t *recTimer) TimeoutForRound(h specqbft.Height, r specqbft.Round) { t.armed = append(t.armed, r) }

// signRec: one SignBeaconObject call observed at the key-manager seam.
type signRec struct {
	op         int
	domainType phase0.DomainType
	objRoot    [32]byte
	signRoot   [32]byte
	ctx        string // what the operator was doing (set by the driver)
}

// spyKM wraps the spec test signer and records every call; deliberately permissive (no slashing
// protection), because C03 is about the runner's discipline.
type spyKM struct {
	spectypes.KeyManager
	w  *world
	op int
}

// IsAttestationSlashable: slashing protection is operator-local; the "picky" operator's database
// reports attestations that vote for one particular head (the one operator `picky_against` saw) as
// slashable, everybody else accepts them.
func (s *spyKM) IsAttestationSlashable(pk []byte, data *phase0.AttestationData) error {
	if s.w.pickyRejects(s.op, data) {
		return fmt.Errorf("slashable attestation (operator-local protection record)")
	}
	return s.KeyManager.IsAttestationSlashable(pk, data)
}

func (w *world) pickyRejects(op int, data *phase0.AttestationData) bool {
	return int(w.d.Cfg.Get("picky", -1)) == op && int(data.BeaconBlockRoot[31]) == int(w.d.Cfg.Get("picky_against", 0))
}

func (s *spyKM) SignBeaconObject(obj ssz.HashRoot, domain phase0.Domain, pk []byte, domainType phase0.DomainType) (spectypes.Signature, [32]byte, error) {
	sig, root, err := s.KeyManager.SignBeaconObject(obj, domain, pk, domainType)
	or, _ := obj.HashTreeRoot()
	s.w.onSign(s.op, obj, or, root, domainType, err)
	return sig, root, err
}

type operator struct {
	idx     int
	id      spectypes.OperatorID
	v       *validator.Validator
	runners runner.DutyRunners
	net     *capNet
	beacon  *fakeBeacon
	share   *ssvtypes.SSVShare
	stores  *ibftstorage.QBFTStores
	db      basedb.Database
	cancel  context.CancelFunc
	// per role: the duty the driver started last (for the oracles)
	started map[spectypes.BeaconRole]*spectypes.Duty
	// the operator's activity as the driver sees it (read by the signing oracle)
	doing string
}

type poolMsg struct {
	id    int
	from  spectypes.OperatorID
	raw   *spectypes.SSVMessage
	desc  string
	valid bool // produced by an honest operator's real code (not corrupted by the simulator)
	role  spectypes.BeaconRole
	kind  string // consensus | pre | post
	slot  phase0.Slot
}

type pend struct{ msg, to int }

type world struct {
	d        *sim.D
	prop     string
	n, f     int
	ks       *testingutils.TestKeySet
	ops      []*operator
	pool     []*poolMsg
	pending  map[pend]bool
	baseSlot phase0.Slot
	signs    []signRec
	subs     []subRec
	plan     []sim.Step
	// oracle bookkeeping
	signedOnce    map[string]bool   // op|domain|objRoot -> signed before
	certified     map[string][]byte // op|role|height -> value certified (quorum of valid commits delivered)
	commitSeen    map[string]map[spectypes.OperatorID]bool
	t0            time.Time
	dutiesStarted map[int]int
	mkTimer       func(op *operator, role spectypes.BeaconRole) roundtimer.Timer // nil: recording timers
}

func roleName(r spectypes.BeaconRole) string { return r.String() }

func msgID(ks *testingutils.TestKeySet, role spectypes.BeaconRole) spectypes.MessageID {
	return spectypes.NewMsgID(testingutils.TestingSSVDomainType, ks.ValidatorPK.Serialize(), role)
}

func newWorld(d *sim.D, prop string, mkDB func() basedb.Database, opts ...func(*world)) *world {
	n := int(d.Cfg.Get("n", 4))
	w := &world{d: d, prop: prop, n: n, f: (n - 1) / 3, ks: keySet(n), pending: map[pend]bool{}, signedOnce: map[string]bool{},
		certified: map[string][]byte{}, commitSeen: map[string]map[spectypes.OperatorID]bool{}, t0: time.Now(), dutiesStarted: map[int]int{}}
	w.baseSlot = beaconNet.EstimatedCurrentSlot()
	for _, o := range opts {
		o(w)
	}
	for i := 0; i < n; i++ {
		w.ops = append(w.ops, w.newOperator(i, mkDB()))
	}
	return w
}

// newOperator wires one operator the way operator/validator.SetupRunners does, except for the stubs.
func (w *world) newOperator(i int, db basedb.Database) *operator {
	ks := w.ks
	id := spectypes.OperatorID(i + 1)
	op := &operator{idx: i, id: id, net: &capNet{}, db: db, started: map[spectypes.BeaconRole]*spectypes.Duty{}}
	op.beacon = &fakeBeacon{w: w, op: op}
	share := &ssvtypes.SSVShare{
		Share: spectypes.Share{
			OperatorID:          id,
			ValidatorPubKey:     ks.ValidatorPK.Serialize(),
			SharePubKey:         ks.Shares[id].GetPublicKey().Serialize(),
			DomainType:          testingutils.TestingSSVDomainType,
			Quorum:              ks.Threshold,
			PartialQuorum:       ks.PartialThreshold,
			Committee:           ks.Committee(),
			FeeRecipientAddress: testingutils.TestingFeeRecipient,
			Graffiti:            []byte("verif"),
		},
	}
	op.share = share
	km := &spyKM{KeyManager: testingutils.NewTestingKeyManager(), w: w, op: i}
	op.stores = ibftstorage.NewStoresFromRoles(db, roles...)
	bn := beacon.NewNetwork(beaconNet)
	build := func(role spectypes.BeaconRole, vc specqbft.ProposedValueCheckF) *controller.Controller {
		var tm roundtimer.Timer = &recTimer{}
		if w.mkTimer != nil {
			tm = w.mkTimer(op, role)
		}
		cfg := &qbft.Config{Signer: km, SigningPK: share.ValidatorPubKey, Domain: testingutils.TestingSSVDomainType, ValueCheckF: vc,
			ProposerF: specqbft.RoundRobinProposer, Storage: op.stores.Get(role), Network: op.net, Timer: tm, SignatureVerification: true}
		mid := msgID(ks, role)
		return controller.NewController(mid[:], &share.Share, cfg, w.d.Cfg.Get("full_node", 0) == 1)
	}
	vi := phase0.ValidatorIndex(testingutils.TestingValidatorIndex)
	rs := runner.DutyRunners{}
	att := specssv.AttesterValueCheckF(km, beaconNet, share.ValidatorPubKey, vi, share.SharePubKey)
	rs[spectypes.BNRoleAttester] = runner.NewAttesterRunnner(beaconNet, &share.Share, build(spectypes.BNRoleAttester, att), op.beacon, op.net, km, att, 0)
	prop := specssv.ProposerValueCheckF(km, beaconNet, share.ValidatorPubKey, vi, share.SharePubKey)
	rs[spectypes.BNRoleProposer] = runner.NewProposerRunner(beaconNet, &share.Share, build(spectypes.BNRoleProposer, prop), op.beacon, op.net, km, prop, 0)
	agg := specssv.AggregatorValueCheckF(km, beaconNet, share.ValidatorPubKey, vi)
	rs[spectypes.BNRoleAggregator] = runner.NewAggregatorRunner(beaconNet, &share.Share, build(spectypes.BNRoleAggregator, agg), op.beacon, op.net, km, agg, 0)
	sc := specssv.SyncCommitteeValueCheckF(km, beaconNet, share.ValidatorPubKey, vi)
	rs[spectypes.BNRoleSyncCommittee] = runner.NewSyncCommitteeRunner(beaconNet, &share.Share, build(spectypes.BNRoleSyncCommittee, sc), op.beacon, op.net, km, sc, 0)
	scc := specssv.SyncCommitteeContributionValueCheckF(km, beaconNet, share.ValidatorPubKey, vi)
	rs[spectypes.BNRoleSyncCommitteeContribution] = runner.NewSyncCommitteeAggregatorRunner(beaconNet, &share.Share, build(spectypes.BNRoleSyncCommitteeContribution, scc), op.beacon, op.net, km, scc, 0)
	rs[spectypes.BNRoleValidatorRegistration] = runner.NewValidatorRegistrationRunner(beaconNet, &share.Share, build(spectypes.BNRoleValidatorRegistration, nil), op.beacon, op.net, km)
	rs[spectypes.BNRoleVoluntaryExit] = runner.NewVoluntaryExitRunner(beaconNet, &share.Share, op.beacon, op.net, km)
	op.runners = rs
	ctx, cancel := context.WithCancel(context.Background())
	op.cancel = cancel
	op.v = validator.NewValidator(ctx, cancel, validator.Options{Network: op.net, Beacon: op.beacon, BeaconNetwork: bn, Storage: op.stores,
		SSVShare: share, Signer: km, DutyRunners: rs, QueueSize: 256, Metrics: validator.NopMetrics{}})
	return op
}

func (w *world) quorum() int { return int(w.ks.Threshold) }

func (w *world) logf(f string, a ...any) { w.d.Logf(f, a...) }

// classify decodes a broadcast for the log, the generator and the oracles.
func (w *world) classify(m *spectypes.SSVMessage) (kind, desc string, slot phase0.Slot) {
	role := m.MsgID.GetRoleType()
	switch m.MsgType {
	case spectypes.SSVConsensusMsgType:
		sm := &specqbft.SignedMessage{}
		if sm.Decode(m.Data) != nil {
			return "consensus", "undecodable", 0
		}
		t := []string{"proposal", "prepare", "commit", "rc"}[sm.Message.MsgType%4]
		return "consensus", fmt.Sprintf("%s/%s h%d r%d by%v", roleName(role), t, sm.Message.Height, sm.Message.Round, sm.Signers), phase0.Slot(sm.Message.Height)
	case spectypes.SSVPartialSignatureMsgType:
		pm := &spectypes.SignedPartialSignatureMessage{}
		if pm.Decode(m.Data) != nil {
			return "post", "undecodable", 0
		}
		k := "pre"
		if pm.Message.Type == spectypes.PostConsensusPartialSig {
			k = "post"
		}
		return k, fmt.Sprintf("%s/%s-sig slot%d by%d roots=%d", roleName(role), k, pm.Message.Slot, pm.Signer, len(pm.Message.Messages)), pm.Message.Slot
	}
	return "other", "other", 0
}

func (w *world) addToPool(from spectypes.OperatorID, m *spectypes.SSVMessage, valid bool, recipients []int) *poolMsg {
	kind, desc, slot := w.classify(m)
	pm := &poolMsg{id: len(w.pool), from: from, raw: m, desc: desc, valid: valid, role: m.MsgID.GetRoleType(), kind: kind, slot: slot}
	w.pool = append(w.pool, pm)
	if recipients == nil {
		for i := range w.ops {
			recipients = append(recipients, i)
		}
	}
	for _, to := range recipients {
		w.pending[pend{pm.id, to}] = true
	}
	w.logf("send #%d from=%d valid=%v %s", pm.id, from, valid, desc)
	return pm
}

func (w *world) collect(op *operator) {
	for _, m := range op.net.out {
		w.checkBroadcast(op, m)
		w.addToPool(op.id, m, true, nil)
	}
	op.net.out = nil
}

func (w *world) pendingList() []pend {
	out := make([]pend, 0, len(w.pending))
	for p := range w.pending {
		out = append(out, p)
	}
	sort.Slice(out, func(i, j int) bool {
		if out[i].msg != out[j].msg {
			return out[i].msg < out[j].msg
		}
		return out[i].to < out[j].to
	})
	return out
}

func (w *world) safely(op *operator, what string, f func()) {
	defer func() {
		if r := recover(); r != nil {
			if c, ok := r.(sim.Crash); ok {
				panic(c)
			}
			w.d.Probe("panic-in-code-under-test: " + what + ": " + trim(fmt.Sprint(r)))
			w.logf("PANIC op=%d in %s: %.80s", op.id, what, fmt.Sprint(r))
			if os.Getenv("VERIF_STACK") != "" {
				_ = os.WriteFile(os.Getenv("VERIF_STACK"), debug.Stack(), 0o644)
			}
		}
	}()
	f()
}

func (w *world) deliver(m *poolMsg, to *operator) {
	if w.pending[pend{m.id, to.idx}] {
		delete(w.pending, pend{m.id, to.idx})
	} else {
		w.d.Fault("duplicate-or-late-redelivery")
	}
	cp := &spectypes.SSVMessage{MsgType: m.raw.MsgType, MsgID: m.raw.MsgID, Data: append([]byte(nil), m.raw.Data...)}
	dec, err := queue.DecodeSSVMessage(cp)
	if err != nil {
		w.logf("deliver #%d -> op=%d undecodable", m.id, to.id)
		return
	}
	w.noteDelivery(m, to)
	to.doing = fmt.Sprintf("process #%d %s", m.id, m.desc)
	var perr error
	w.safely(to, "ProcessMessage", func() { perr = to.v.ProcessMessage(logger, dec) })
	to.doing = ""
	es := "ok"
	if perr != nil {
		es = "err(" + trim(perr.Error()) + ")"
	}
	w.logf("deliver #%d -> op=%d %s", m.id, to.id, es)
	w.collect(to)
	w.afterStep(to, "deliver")
}

func trim(s string) string {
	if len(s) > 110 {
		return s[:110]
	}
	return s
}

func (w *world) abs() string {
	s := ""
	for _, op := range w.ops {
		for _, r := range roles {
			br := op.runners[r].GetBaseRunner()
			st := "-"
			if br.State != nil {
				st = fmt.Sprintf("%v/%v/%v", br.State.RunningInstance != nil && br.State.RunningInstance.State.Decided, br.State.DecidedValue != nil, br.State.Finished)
			}
			s += st + ","
		}
		s += "|"
	}
	return s
}

func (w *world) afterStep(op *operator, kind string) {
	w.d.State(fmt.Sprint(op.id), kind, w.abs())
}

func hx(b []byte) string {
	if len(b) > 6 {
		b = b[:6]
	}
	return hex.EncodeToString(b)
}
