package runnersim

// C10: messages produced by correct operators are never rejected by correct peers.
//
// A committee of 4 or 7 real operators (validator.Validator + real duty runners + real QBFT) runs
// duties in simulated time. Every broadcast is gossiped: before a peer's validator sees a message it
// passes that peer's REAL message validator (message/validation) at the simulated arrival time; only
// accepted messages are pushed into the peer's real message queue, which is drained with the real
// prioritizer and the consumer's filter. Round timers fire exactly at the deadline the real
// roundtimer.RoundTimer computes. Discrete-event loop (regime A) inside a synctest bubble that only
// provides the clock; every choice (latencies, start jitter, omissions, outages) is a function of the
// configuration and the explicit step program.
//
// Fault modes (configuration "mode"):
//   0  fault-free, constant per-link latency (FIFO links): every honest message must be ACCEPTED.
//   1  up to f operators are omission-faulty (their broadcasts reach only chosen peers, they ignore
//      chosen senders); messages between correct operators arrive with latency <= lat_max.
//   2  as 1, plus outages: any set of operators can lose connectivity for a while (messages to and
//      from them are lost, nothing is ever delivered late) - this is how late rounds are reached.
// In every mode: a message emitted by a correct operator's real code must never be classified as
// reject by a correct peer (committee member or the non-committee observer).

import (
	"container/heap"
	"context"
	"encoding/json"
	"fmt"
	"regexp"
	"strings"
	"sync"
	"testing"
	"time"

	eth2apiv1 "github.com/attestantio/go-eth2-client/api/v1"
	"github.com/attestantio/go-eth2-client/spec/phase0"
	specqbft "github.com/bloxapp/ssv-spec/qbft"
	spectypes "github.com/bloxapp/ssv-spec/types"
	"github.com/bloxapp/ssv-spec/types/testingutils"
	"github.com/ethereum/go-ethereum/common"
	pubsub "github.com/libp2p/go-libp2p-pubsub"
	pspb "github.com/libp2p/go-libp2p-pubsub/pb"
	"github.com/libp2p/go-libp2p/core/peer"
	"go.uber.org/zap"
	"go.uber.org/zap/zapcore"
	"go.uber.org/zap/zaptest/observer"

	"github.com/bloxapp/ssv/message/validation"
	"github.com/bloxapp/ssv/network/commons"
	"github.com/bloxapp/ssv/networkconfig"
	operatordatastore "github.com/bloxapp/ssv/operator/datastore"
	"github.com/bloxapp/ssv/operator/duties/dutystore"
	"github.com/bloxapp/ssv/operator/keys"
	nodestorage "github.com/bloxapp/ssv/operator/storage"
	"github.com/bloxapp/ssv/protocol/v2/blockchain/beacon"
	"github.com/bloxapp/ssv/protocol/v2/message"
	"github.com/bloxapp/ssv/protocol/v2/qbft/instance"
	"github.com/bloxapp/ssv/protocol/v2/qbft/roundtimer"
	"github.com/bloxapp/ssv/protocol/v2/ssv/queue"
	ssvtypes "github.com/bloxapp/ssv/protocol/v2/types"
	registrystorage "github.com/bloxapp/ssv/registry/storage"

	"verifharness/sim"
)

var c10Roles = []spectypes.BeaconRole{spectypes.BNRoleAttester, spectypes.BNRoleProposer, spectypes.BNRoleAggregator, spectypes.BNRoleSyncCommittee,
	spectypes.BNRoleSyncCommitteeContribution, spectypes.BNRoleValidatorRegistration, spectypes.BNRoleVoluntaryExit}

var c10Kinds = []string{"proposal", "prepare", "commit", "round-change", "decided", "partial"}

type gmsg struct {
	id     int
	from   int
	raw    *spectypes.SSVMessage
	data   []byte
	kind   int  // index into c10Kinds
	signed bool // sent inside a signed envelope
	sub    string
	desc   string
	role   spectypes.BeaconRole
	round  specqbft.Round
	height specqbft.Height
}

const (
	evStart = iota
	evDeliver
	evTimeout
)

type c10ev struct {
	at   time.Time
	seq  uint64
	kind int
	op   int
	role spectypes.BeaconRole
	slot phase0.Slot
	m    *gmsg
	h    specqbft.Height
	r    specqbft.Round
	gen  int
}

type c10heap []*c10ev

func (h c10heap) Len() int { return len(h) }
func (h c10heap) Less(i, j int) bool {
	if !h[i].at.Equal(h[j].at) {
		return h[i].at.Before(h[j].at)
	}
	return h[i].seq < h[j].seq
}
func (h c10heap) Swap(i, j int) { h[i], h[j] = h[j], h[i] }
func (h *c10heap) Push(x any)   { *h = append(*h, x.(*c10ev)) }
func (h *c10heap) Pop() any {
	o := *h
	x := o[len(o)-1]
	*h = o[:len(o)-1]
	return x
}

type tkey struct {
	op   int
	role spectypes.BeaconRole
}

type c10 struct {
	w       *world
	d       *sim.D
	n       int
	mode    int
	netCfg  networkconfig.NetworkConfig
	mvs     []validation.MessageValidator // per operator, plus the observer at index n
	logs    []*observer.ObservedLogs
	ds      *dutystore.Store
	topic   string
	hp      c10heap
	seq     uint64
	byz     int64
	mute    [][]int64       // [op][kind] -> recipients that do not get it
	deaf    []int64         // [op] -> senders it does not hear
	rxoff   int64           // operators that receive nothing (connectivity outage, inbound)
	txoff   int64           // operators whose messages reach nobody (outbound)
	cut     map[[2]int]bool // single directed links that are down (mode 2)
	rxDrop  []int64         // [op] -> kinds of messages that do not reach it (mode 2, directed schedules)
	lat     [][]time.Duration
	msgs    []*gmsg
	tgen    map[tkey]int
	start0  time.Time
	slot0   phase0.Slot
	lastT0  time.Time
	judged  int
	duties  int
	epochN  map[string]int // role|epoch -> duties planned (attester / aggregator: <= 2 per epoch)
	maxRnd  specqbft.Round
	rsa     []keys.OperatorPrivateKey // operator keys of the signed-envelope layer
	tooHigh map[string]specqbft.Round
}

var (
	c10KeysOnce sync.Once
	c10Keys     []keys.OperatorPrivateKey
	c10Pubs     [][]byte
)

func c10LoadKeys() {
	c10KeysOnce.Do(func() {
		for _, s := range c10RSAPrivB64 {
			k, err := keys.PrivateKeyFromString(s)
			must(err)
			p, err := k.Public().Base64()
			must(err)
			c10Keys, c10Pubs = append(c10Keys, k), append(c10Pubs, p)
		}
	})
}

// simTimer: deadline computed by the real RoundTimer, fired by the event loop.
type simTimer struct {
	c    *c10
	op   int
	role spectypes.BeaconRole
	rt   *roundtimer.RoundTimer
}

func (t *simTimer) TimeoutForRound(h specqbft.Height, r specqbft.Round) {
	d := t.rt.RoundTimeout(h, r)
	if d < 0 {
		d = 0
	}
	k := tkey{t.op, t.role}
	t.c.tgen[k]++
	t.c.push(&c10ev{at: time.Now().Add(d), kind: evTimeout, op: t.op, role: t.role, h: h, r: r, gen: t.c.tgen[k]})
	t.c.d.Logf("arm op=%d %s h=+%d r=%d in %v", t.op+1, roleName(t.role), int64(h)-int64(t.c.slot0), r, d)
}

func (c *c10) push(e *c10ev) {
	c.seq++
	e.seq = c.seq
	heap.Push(&c.hp, e)
}

func (c *c10) rel() time.Duration { return time.Since(c.start0) }

func newC10(d *sim.D) *c10 {
	n := int(d.Cfg.Get("n", 4))
	c := &c10{d: d, n: n, mode: int(d.Cfg.Get("mode", 0)), tgen: map[tkey]int{}, epochN: map[string]int{}, tooHigh: map[string]specqbft.Round{}}
	bn := beacon.NewNetwork(beaconNet)
	c.w = newWorld(d, "C10", memDB, func(w *world) {
		w.mkTimer = func(op *operator, role spectypes.BeaconRole) roundtimer.Timer {
			return &simTimer{c: c, op: op.idx, role: role, rt: roundtimer.New(context.Background(), bn, role, nil)}
		}
	})
	w := c.w
	c.slot0 = w.baseSlot + 1 + phase0.Slot(d.Cfg.Get("slot_base", 0))
	c.start0 = bn.GetSlotStartTime(c.slot0)
	c.netCfg = networkconfig.NetworkConfig{Name: "verif", Beacon: bn, Domain: testingutils.TestingSSVDomainType, PermissionlessActivationEpoch: 1 << 40}
	switch d.Cfg.Get("fork", 0) { // signed envelopes: never / always / from the epoch after the first duty's
	case 1:
		c.netCfg.PermissionlessActivationEpoch = 0
	case 2:
		c.netCfg.PermissionlessActivationEpoch = bn.EstimatedEpochAtSlot(c.slot0)
	}
	c10LoadKeys()
	c.rsa = c10Keys
	c.topic = commons.GetTopicFullName(commons.ValidatorTopicID(w.ks.ValidatorPK.Serialize())[0])

	ns, err := nodestorage.NewNodeStorage(logger, sim.NewMemDB())
	must(err)
	sh := *w.ops[0].share
	sh.Metadata = ssvtypes.Metadata{BeaconMetadata: &beacon.ValidatorMetadata{Index: testingutils.TestingValidatorIndex, Status: eth2apiv1.ValidatorStateActiveOngoing}}
	must(ns.Shares().Save(nil, &sh))
	for i := 0; i < n; i++ {
		_, err := ns.SaveOperatorData(nil, &registrystorage.OperatorData{ID: uint64(i + 1), PublicKey: c10Pubs[i], OwnerAddress: common.Address{byte(i + 1)}})
		must(err)
	}
	c.ds = dutystore.New()
	ep := bn.EstimatedEpochAtSlot(c.slot0)
	for p := uint64(0); p < 2; p++ {
		c.ds.SyncCommittee.Add(bn.EstimatedSyncCommitteePeriodAtEpoch(ep)+p, testingutils.TestingValidatorIndex, &eth2apiv1.SyncCommitteeDuty{ValidatorIndex: testingutils.TestingValidatorIndex}, true)
	}
	for i := 0; i <= n; i++ {
		core, logs := observer.New(zapcore.DebugLevel)
		opts := []validation.Option{validation.WithNodeStorage(ns), validation.WithDutyStore(c.ds), validation.WithLogger(zap.New(core))}
		if i < n {
			opts = append(opts, validation.WithOwnOperatorID(operatordatastore.New(&registrystorage.OperatorData{ID: uint64(i + 1)})))
		}
		c.mvs = append(c.mvs, validation.NewMessageValidator(c.netCfg, opts...))
		c.logs = append(c.logs, logs)
	}
	c.mute = make([][]int64, n)
	c.deaf = make([]int64, n)
	for i := range c.mute {
		c.mute[i] = make([]int64, len(c10Kinds))
	}
	// faulty operators are named relative to the round-1 leader of the first slot, so that
	// "the leader of round 1 (and 2) is faulty" is a common case
	if c.mode > 0 {
		lead := c.leaderIdx(specqbft.Height(c.slot0), 1)
		rel, cnt := d.Cfg.Get("byz_rel", 0), 0
		for k := 0; k < n && cnt < w.f; k++ {
			if rel&(1<<uint(k)) != 0 {
				c.byz |= 1 << uint((lead+k)%n)
				cnt++
			}
		}
	}
	// link latencies: fixed per link (FIFO), derived from the configuration
	lm, ls := d.Cfg.Get("lat_max", 20), uint64(d.Cfg.Get("lat_seed", 1))
	c.lat = make([][]time.Duration, n)
	for i := range c.lat {
		c.lat[i] = make([]time.Duration, n+1)
		for j := range c.lat[i] {
			c.lat[i][j] = time.Duration(1+sim.SplitMix(ls, uint64(i*16+j))%uint64(lm)) * time.Millisecond
		}
	}
	d.Logf("c10 n=%d mode=%d byz=%b slot0=%d lat_max=%dms", n, c.mode, c.byz, c.slot0, lm)
	return c
}

func (c *c10) leaderIdx(h specqbft.Height, r specqbft.Round) int {
	id := specqbft.RoundRobinProposer(&specqbft.State{Height: h, Share: &c.w.ops[0].share.Share}, r)
	return int(id) - 1
}

func (c *c10) isByz(i int) bool { return i < c.n && c.byz&(1<<uint(i)) != 0 }

func c10Classify(m *spectypes.SSVMessage) (kind int, sub string, h specqbft.Height, r specqbft.Round, desc string) {
	role := m.MsgID.GetRoleType()
	switch m.MsgType {
	case spectypes.SSVConsensusMsgType:
		sm := &specqbft.SignedMessage{}
		if sm.Decode(m.Data) != nil {
			return 5, "undecodable", 0, 0, "undecodable consensus message"
		}
		kind = int(sm.Message.MsgType) % 4
		if len(sm.Signers) > 1 {
			kind = 4
		}
		extra := ""
		if sm.Message.MsgType == specqbft.RoundChangeMsgType && sm.Message.DataRound != 0 {
			extra, sub = fmt.Sprintf(" prepared@r%d", sm.Message.DataRound), "with-prepared-value"
		}
		if sm.Message.MsgType == specqbft.ProposalMsgType && len(sm.Message.PrepareJustification) > 0 {
			extra, sub = " justified-by-prepares", "with-prepare-justification"
		}
		return kind, sub, sm.Message.Height, sm.Message.Round, fmt.Sprintf("%s/%s h%d r%d by%v%s", roleName(role), c10Kinds[kind], sm.Message.Height, sm.Message.Round, sm.Signers, extra)
	case spectypes.SSVPartialSignatureMsgType:
		pm := &spectypes.SignedPartialSignatureMessage{}
		if pm.Decode(m.Data) != nil {
			return 5, "undecodable", 0, 0, "undecodable partial-signature message"
		}
		sub = "pre-consensus"
		if pm.Message.Type == spectypes.PostConsensusPartialSig {
			sub = "post-consensus"
		}
		return 5, sub, specqbft.Height(pm.Message.Slot), 0, fmt.Sprintf("%s/%s slot%d by%d roots=%d", roleName(role), sub, pm.Message.Slot, pm.Signer, len(pm.Message.Messages))
	}
	return 5, "other", 0, 0, "other"
}

// collect gossips what the operator broadcast during the last action.
func (c *c10) collect(op *operator) {
	out := op.net.out
	op.net.out = nil
	for _, m := range out {
		data, err := commons.EncodeNetworkMsg(m)
		if err != nil {
			c.d.Probe("diag-unencodable-broadcast")
			continue
		}
		// p2pNetwork.Broadcast: the sender wraps the message in a signed envelope once the fork is active at ITS clock
		signed := false
		if c.netCfg.Beacon.EstimatedCurrentEpoch() > c.netCfg.PermissionlessActivationEpoch {
			signed = true
			sig, err := c.rsa[op.idx].Sign(data)
			must(err)
			data = commons.EncodeSignedSSVMessage(data, op.id, sig)
			c.d.Probe("signed-envelope-sent")
		}
		g := &gmsg{id: len(c.msgs), from: op.idx, raw: m, data: data, role: m.MsgID.GetRoleType(), signed: signed}
		g.kind, g.sub, g.height, g.round, g.desc = c10Classify(m)
		c.msgs = append(c.msgs, g)
		if g.round > c.maxRnd {
			c.maxRnd = g.round
		}
		if g.sub == "with-prepared-value" {
			c.d.Probe("rc-with-prepared-value")
		}
		if g.sub == "with-prepare-justification" {
			c.d.Probe("proposal-justified-by-prepares")
		}
		if g.kind == 0 && g.round > 1 {
			c.d.Probe("proposal-in-later-round")
		}
		sent := 0
		now := time.Now()
		for to := 0; to <= c.n; to++ {
			switch {
			case to == op.idx:
				c.push(&c10ev{at: now, kind: evDeliver, op: to, m: g})
			case c.txoff&(1<<uint(op.idx)) != 0 || c.cut[[2]int{op.idx, to}]:
				c.d.Fault("outage-message-lost")
			case c.isByz(op.idx) && c.mute[op.idx][g.kind]&(1<<uint(to)) != 0:
				c.d.Fault("omission-by-faulty-sender")
			default:
				extra := time.Duration(0)
				if j := c.d.Cfg.Get("jit", 0); j > 0 {
					extra = time.Duration(sim.SplitMix(uint64(c.d.Cfg.Get("lat_seed", 1))+77, uint64(g.id*32+to))%uint64(j+1)) * time.Millisecond
				}
				c.push(&c10ev{at: now.Add(c.lat[op.idx][to] + extra), kind: evDeliver, op: to, m: g})
				sent++
			}
		}
		c.d.Logf("t=%v send #%d from=%d %s -> %d peers", c.rel(), g.id, op.id, g.desc, sent)
	}
}

var c10Peer = peer.ID("c10-peer")

// gate = the receiving peer's real message validator at the current (simulated) instant.
func (c *c10) gate(to int, g *gmsg) (string, string, *queue.DecodedSSVMessage) {
	topic := c.topic
	pm := &pubsub.Message{Message: &pspb.Message{Topic: &topic, Data: append([]byte(nil), g.data...)}, ReceivedFrom: c10Peer}
	res := pubsub.ValidationResult(-1)
	name := "panic"
	func() {
		defer func() {
			if r := recover(); r != nil {
				c.d.Probe("panic-in-message-validation: " + trim(fmt.Sprint(r)))
			}
		}()
		res = c.mvs[to].ValidatePubsubMessage(context.Background(), c10Peer, pm)
		name = map[pubsub.ValidationResult]string{pubsub.ValidationAccept: "accept", pubsub.ValidationReject: "reject", pubsub.ValidationIgnore: "ignore"}[res]
	}()
	text := ""
	for _, e := range c.logs[to].TakeAll() {
		for _, f := range e.Context {
			if f.Key == "error" {
				if err, ok := f.Interface.(error); ok {
					text = err.Error()
				}
			}
		}
	}
	var dec *queue.DecodedSSVMessage
	if res == pubsub.ValidationAccept {
		dec, _ = pm.ValidatorData.(*queue.DecodedSSVMessage)
	}
	return name, text, dec
}

// rule extracts the rule name from a validation error ("bad signer behavior: X, got .., want ..: inner").
func c10Rule(text string) string {
	t := strings.TrimPrefix(text, "bad signer behavior: ")
	for _, cut := range []string{", got ", ", want ", ": "} {
		if i := strings.Index(t, cut); i >= 0 {
			t = t[:i]
		}
	}
	if t == "" {
		t = "unnamed"
	}
	return t
}

// ruleDetail: for the per-round message limit the signature also names the committee size and the
// number of messages after which the honest message was refused (a different limit is a different finding).
func (c *c10) ruleDetail(text string, g *gmsg) string {
	r := c10Rule(text)
	if r == "round is too high for this role" { // names the role and the first round that was refused in this run
		k := roleName(g.role)
		if c.tooHigh[k] == 0 {
			c.tooHigh[k] = g.round
		}
		return fmt.Sprintf("%s/%s,first-refused-round=%d", r, k, c.tooHigh[k])
	}
	if r == "too many messages of same type per round" {
		i := strings.Index(text, ", got ")
		if i >= 0 {
			kind := strings.SplitN(text[i+6:], ",", 2)[0]
			if m := regexp.MustCompile(regexp.QuoteMeta(kind) + `: (\d+)`).FindStringSubmatch(text[i:]); m != nil {
				return fmt.Sprintf("%s/n=%d,refused-after=%s", r, c.n, m[1])
			}
		}
	}
	return r
}

func (c *c10) deliver(e *c10ev) {
	g, to := e.m, e.op
	if to == g.from { // libp2p hands a node its own publication without validating it (self-accept)
		dec, err := queue.DecodeSSVMessage(&spectypes.SSVMessage{MsgType: g.raw.MsgType, MsgID: g.raw.MsgID, Data: append([]byte(nil), g.raw.Data...)})
		if err == nil {
			c.enqueue(c.w.ops[to], dec)
		}
		return
	}
	if to < c.n && (c.rxoff&(1<<uint(to)) != 0 || (c.rxDrop != nil && c.rxDrop[to]&(1<<uint(g.kind)) != 0)) {
		c.d.Fault("outage-message-lost")
		return
	}
	if to < c.n && c.isByz(to) && c.deaf[to]&(1<<uint(g.from)) != 0 {
		c.d.Fault("faulty-receiver-ignores")
		return
	}
	verdict, text, dec := c.gate(to, g)
	who := fmt.Sprintf("op=%d", to+1)
	if to == c.n {
		who = "observer"
	}
	c.d.Logf("t=%v gate #%d -> %s %s %s", c.rel(), g.id, who, verdict, trim(text))
	if !c.isByz(g.from) && !c.isByz(to) {
		c.judged++
		cls := c10Kinds[g.kind]
		if g.sub != "" {
			cls += "(" + g.sub + ")"
		}
		if g.kind == 5 {
			cls = roleName(g.role) + "/" + cls
		}
		switch {
		case verdict != "accept" && g.signed != (c.netCfg.Beacon.EstimatedCurrentEpoch() > c.netCfg.PermissionlessActivationEpoch):
			// the sender chose the wire format by ITS clock at send time, the receiver by its clock at arrival
			c.d.Finding("honest-message-rejected", "in-flight-across-fork-activation", "#%d %s from operator %d was sent before the signed-envelope fork activated (unsigned, as Broadcast prescribes at that instant) and validated at t=%v, after the activation, by %s: %s (%s)",
				g.id, g.desc, g.from+1, c.rel(), who, verdict, text)
		case verdict == "reject":
			c.d.Finding("honest-message-rejected", cls+"/"+c.ruleDetail(text, g), "mode %d: #%d %s from correct operator %d, validated by correct %s at t=%v (slot start %+v), was REJECTED: %s",
				c.mode, g.id, g.desc, g.from+1, who, c.rel(), time.Since(c.netCfg.Beacon.GetSlotStartTime(phase0.Slot(g.height))), text)
		case verdict == "accept":
		default:
			c.d.Probe("not-accepted: " + cls + "/" + c10Rule(text))
			if c.mode == 0 {
				c.d.Finding("honest-message-not-accepted-in-fault-free-run", cls+"/"+c.ruleDetail(text, g), "fault-free in-order run: #%d %s from operator %d validated by %s at t=%v: %s (%s)",
					g.id, g.desc, g.from+1, who, c.rel(), verdict, text)
			}
		}
	}
	if dec != nil && to < c.n {
		c.enqueue(c.w.ops[to], dec)
	}
}

func (c *c10) enqueue(op *operator, dec *queue.DecodedSSVMessage) {
	op.v.HandleMessage(logger, dec)
	c.drain(op, dec.MsgID.GetRoleType())
}

// drain = validator.ConsumeQueue's loop body (state, filter, pop by the real prioritizer, handle) run to exhaustion.
func (c *c10) drain(op *operator, role spectypes.BeaconRole) {
	w := c.w
	mid := msgID(w.ks, role)
	qc, ok := op.v.Queues[role]
	if !ok {
		return
	}
	for guard := 0; guard < 2000; guard++ {
		state := queue.State{}
		rn := op.runners[role]
		var running *instance.Instance
		if rn.HasRunningDuty() {
			running = rn.GetBaseRunner().State.RunningInstance
			if running != nil {
				decided, _ := running.IsDecided()
				state.HasRunningInstance = !decided
			}
		}
		state.Height = op.v.GetLastHeight(mid)
		state.Round = op.v.GetLastRound(mid)
		state.Quorum = op.share.Quorum
		filter := queue.FilterAny
		if !rn.HasRunningDuty() {
			filter = func(m *queue.DecodedSSVMessage) bool {
				e, ok := m.Body.(*ssvtypes.EventMsg)
				return ok && e.Type == ssvtypes.ExecuteDuty
			}
		} else if running != nil && running.State.ProposalAcceptedForCurrentRound == nil {
			filter = func(m *queue.DecodedSSVMessage) bool {
				sm, ok := m.Body.(*specqbft.SignedMessage)
				if !ok {
					return true
				}
				if sm.Message.Height != state.Height || sm.Message.Round != state.Round {
					return true
				}
				return sm.Message.MsgType != specqbft.PrepareMsgType && sm.Message.MsgType != specqbft.CommitMsgType
			}
		}
		msg := qc.Q.TryPop(queue.NewMessagePrioritizer(&state), filter)
		if msg == nil {
			return
		}
		var err error
		w.safely(op, "ProcessMessage", func() { err = op.v.ProcessMessage(logger, msg) })
		if err != nil {
			c.d.Logf("  op=%d process: %s", op.id, trim(err.Error()))
		}
		c.collect(op)
		w.afterStep(op, "msg")
	}
	c.d.Probe("diag-drain-guard")
}

func (c *c10) dutyFor(role spectypes.BeaconRole, slot phase0.Slot) *spectypes.Duty {
	var d spectypes.Duty
	switch role {
	case spectypes.BNRoleValidatorRegistration:
		d = testingutils.TestingValidatorRegistrationDuty
	case spectypes.BNRoleVoluntaryExit:
		d = testingutils.TestingVoluntaryExitDuty
	default:
		return func() *spectypes.Duty {
			x := dutyFor(c.w, role, slot)
			if role == spectypes.BNRoleSyncCommitteeContribution {
				x.ValidatorSyncCommitteeIndices = [][]uint64{{0, 1, 2}, {5}, {5, 200}, {5, 77}, {130, 300, 500}}[c.d.Cfg.Get("sc_idx", 1)%5]
			}
			return x
		}()
	}
	d.Slot = slot
	copy(d.PubKey[:], c.w.ks.ValidatorPK.Serialize())
	return &d
}

func (c *c10) waitAfterSlotStart(role spectypes.BeaconRole) time.Duration {
	switch role {
	case spectypes.BNRoleAttester, spectypes.BNRoleSyncCommittee:
		return c.netCfg.Beacon.SlotDurationSec() / 3
	case spectypes.BNRoleAggregator, spectypes.BNRoleSyncCommitteeContribution:
		return c.netCfg.Beacon.SlotDurationSec() / 3 * 2
	}
	return 0
}

// planDuty schedules the start of one duty at every operator: slot start + the role's offset + a per-operator lag.
func (c *c10) planDuty(s sim.Step) {
	role := c10Roles[int(s.Arg(0))%len(c10Roles)]
	slot := c.slot0 + phase0.Slot(s.Arg(1)%64)
	bn := c.netCfg.Beacon
	t0 := bn.GetSlotStartTime(slot).Add(c.waitAfterSlotStart(role))
	if t0.Before(time.Now()) {
		c.d.Logf("duty %s slot+%d: too late, not planned", roleName(role), slot-c.slot0)
		return
	}
	if role == spectypes.BNRoleAttester || role == spectypes.BNRoleAggregator || role == spectypes.BNRoleValidatorRegistration || role == spectypes.BNRoleVoluntaryExit {
		k := fmt.Sprint(role, bn.EstimatedEpochAtSlot(slot))
		if c.epochN[k] >= 2 { // the beacon chain assigns one per epoch; two after a re-org
			return
		}
		c.epochN[k]++
	}
	if role == spectypes.BNRoleProposer {
		c.ds.Proposer.Add(bn.EstimatedEpochAtSlot(slot), slot, testingutils.TestingValidatorIndex, &eth2apiv1.ProposerDuty{Slot: slot, ValidatorIndex: testingutils.TestingValidatorIndex}, true)
	}
	jmax := uint64(c.d.Cfg.Get("start_jit", 50))
	for i := 0; i < c.n; i++ {
		lag := time.Duration(sim.SplitMix(uint64(s.Arg(2)), uint64(i))%(jmax+1)) * time.Millisecond
		c.push(&c10ev{at: t0.Add(lag), kind: evStart, op: i, role: role, slot: slot})
	}
	if t0.After(c.lastT0) {
		c.lastT0 = t0
	}
	c.duties++
	c.d.Logf("plan duty %s slot+%d at t=%v", roleName(role), slot-c.slot0, t0.Sub(c.start0))
}

func (c *c10) startDuty(e *c10ev) {
	op := c.w.ops[e.op]
	duty := c.dutyFor(e.role, e.slot)
	var err error
	c.w.safely(op, "StartDuty", func() { err = op.v.StartDuty(logger, duty) })
	es := "ok"
	if err != nil {
		es = "err(" + trim(err.Error()) + ")"
	}
	c.d.Logf("t=%v start-duty op=%d %s slot+%d %s", c.rel(), op.id, roleName(e.role), e.slot-c.slot0, es)
	c.collect(op)
	c.w.afterStep(op, "duty")
	c.drain(op, e.role) // what arrived before the duty started has been waiting in the queue
}

// fire mirrors Validator.onTimeout: a timeout event message through the queue.
func (c *c10) fire(e *c10ev) {
	if c.tgen[tkey{e.op, e.role}] != e.gen {
		return // re-armed since (RoundTimer fires only for the round armed last)
	}
	op := c.w.ops[e.op]
	if !op.runners[e.role].HasRunningDuty() {
		return
	}
	data, _ := json.Marshal(ssvtypes.TimeoutData{Height: e.h, Round: e.r})
	ev := &ssvtypes.EventMsg{Type: ssvtypes.Timeout, Data: data}
	raw, _ := ev.Encode()
	dec, err := queue.DecodeSSVMessage(&spectypes.SSVMessage{MsgType: message.SSVEventMsgType, MsgID: msgID(c.w.ks, e.role), Data: raw})
	if err != nil {
		return
	}
	c.d.Fault("round-timeout")
	c.d.Logf("t=%v timeout op=%d %s h=+%d r=%d", c.rel(), op.id, roleName(e.role), int64(e.h)-int64(c.slot0), e.r)
	c.enqueue(op, dec)
}

func (c *c10) runOne() bool {
	if c.hp.Len() == 0 {
		return false
	}
	e := heap.Pop(&c.hp).(*c10ev)
	if dt := time.Until(e.at); dt > 0 {
		time.Sleep(dt)
	}
	c.d.SimTime = c.rel() + 12*time.Second
	switch e.kind {
	case evStart:
		c.startDuty(e)
	case evDeliver:
		c.deliver(e)
	case evTimeout:
		c.fire(e)
	}
	return true
}

func (c *c10) exec(s sim.Step) {
	n := c.n
	all := int64(1)<<uint(n+1) - 1
	switch s.Op {
	case "duty":
		c.planDuty(s)
	case "runev":
		for k := int64(0); k < 1+s.Arg(0)%200; k++ {
			if !c.runOne() {
				break
			}
		}
	case "run":
		until := time.Now().Add(time.Duration(s.Arg(0)%600000) * time.Millisecond)
		for c.hp.Len() > 0 && !c.hp[0].at.After(until) {
			c.runOne()
		}
		if dt := time.Until(until); dt > 0 {
			time.Sleep(dt)
		}
	case "mute": // faulty operator: which peers do not get which kinds of its messages from now on
		op := int(s.Arg(0)) % n
		if !c.isByz(op) {
			return
		}
		for k := range c10Kinds {
			if s.Arg(1)&(1<<uint(k)) != 0 {
				c.mute[op][k] = s.Arg(2) & all
			}
		}
		c.d.Logf("t=%v faulty op=%d mutes kinds=%06b towards %b", c.rel(), op+1, s.Arg(1)&63, s.Arg(2)&all)
	case "deaf":
		op := int(s.Arg(0)) % n
		if !c.isByz(op) {
			return
		}
		c.deaf[op] = s.Arg(1) & all
		c.d.Logf("t=%v faulty op=%d ignores senders %b", c.rel(), op+1, c.deaf[op])
	case "outage":
		if c.mode < 2 {
			return
		}
		c.rxoff, c.txoff = s.Arg(0)&(all>>1), s.Arg(1)&(all>>1)
		if c.rxoff == 0 && c.txoff == 0 {
			c.cut = nil
		}
		c.d.Logf("t=%v connectivity lost: inbound %b outbound %b", c.rel(), c.rxoff, c.txoff)
	case "lone":
		c.lonePrepared(int(s.Arg(0)) % n)
	case "relead":
		c.reLead(int(s.Arg(0)) % n)
	case "tostart": // run up to and including the next duty start
		for c.hp.Len() > 0 {
			k := c.hp[0].kind
			c.runOne()
			if k == evStart {
				break
			}
		}
	}
}

// lonePrepared (directed schedule, mode 2): let one operator alone collect a prepare quorum - everybody
// else loses inbound connectivity once the proposal is out - and restore connectivity just before the
// round timers fire, so that the next round starts with exactly one operator holding a prepared value.
func (c *c10) lonePrepared(x int) {
	if c.mode < 2 {
		return
	}
	inst := func(i int) *instance.Instance {
		for _, role := range c10Roles[:5] {
			if st := c.w.ops[i].runners[role].GetBaseRunner().State; st != nil && st.RunningInstance != nil && !st.RunningInstance.State.Decided {
				return st.RunningInstance
			}
		}
		return nil
	}
	for k := 0; k < 400 && c.hp.Len() > 0; k++ { // until a proposal is accepted everywhere
		ok := 0
		for i := 0; i < c.n; i++ {
			if in := inst(i); in != nil && in.State.ProposalAcceptedForCurrentRound != nil {
				ok++
			}
		}
		if ok == c.n {
			break
		}
		c.runOne()
	}
	if in := inst(x); in != nil && c.leaderIdx(in.State.Height, in.State.Round+1) == x {
		x = (x + 1) % c.n // the next leader would simply re-propose its own prepared value
	}
	xi := inst(x)
	if xi == nil || xi.State.ProposalAcceptedForCurrentRound == nil {
		c.d.Logf("lone: no running round with an accepted proposal at op=%d", x+1)
		return
	}
	all := int64(1)<<uint(c.n) - 1
	c.rxoff = all &^ (1 << uint(x))
	c.d.Logf("t=%v lone: only op=%d keeps receiving", c.rel(), x+1)
	round := xi.State.Round
	for k := 0; k < 600 && c.hp.Len() > 0 && xi.State.LastPreparedRound < round && xi.State.Round == round; k++ {
		c.runOne()
	}
	if xi.State.LastPreparedRound >= round {
		c.d.Probe("lone-prepared-operator")
	}
	// hold the outage until 1 ms before the next timer fires
	var next time.Time
	for _, e := range c.hp {
		if e.kind == evTimeout && c.tgen[tkey{e.op, e.role}] == e.gen && (next.IsZero() || e.at.Before(next)) {
			next = e.at
		}
	}
	if !next.IsZero() {
		for c.hp.Len() > 0 && c.hp[0].at.Before(next.Add(-time.Millisecond)) {
			c.runOne()
		}
	}
	// ... except for the link to the next leader, which stays down until the leader has proposed
	lead := c.leaderIdx(xi.State.Height, round+1)
	c.cut = map[[2]int]bool{{x, lead}: true}
	c.rxoff = 0
	c.d.Logf("t=%v lone: connectivity restored, link %d->%d still down", c.rel(), x+1, lead+1)
	until, seen := time.Now().Add(1500*time.Millisecond), len(c.msgs)
	proposed := func() bool {
		for ; seen < len(c.msgs); seen++ {
			if g := c.msgs[seen]; g.kind == 0 && g.round == round+1 && g.height == xi.State.Height {
				return true
			}
		}
		return false
	}
	for c.hp.Len() > 0 && !c.hp[0].at.After(until) && !proposed() {
		c.runOne()
	}
	c.cut = nil
}

// reLead (directed schedule, mode 2, committee of 4): the leader of round 1 leads again in round 5 and
// must then propose ANOTHER value. Round 1: its proposal is seen by everybody, but nothing else gets
// through. Round 2: the next leader's value is prepared by one operator only. Rounds 3 and 4 are lost
// in a blackout. Round 5: connectivity is back (one link aside, so that the prepared round-change is in
// the leader's quorum) and the round-1 leader proposes the value prepared in round 2, with justification.
func (c *c10) reLead(x int) {
	if c.mode < 2 {
		return
	}
	inst := func(i int) *instance.Instance {
		for _, role := range c10Roles[:5] {
			if st := c.w.ops[i].runners[role].GetBaseRunner().State; st != nil && st.RunningInstance != nil && !st.RunningInstance.State.Decided {
				return st.RunningInstance
			}
		}
		return nil
	}
	all := int64(1)<<uint(c.n) - 1
	proposalEverywhere := func(round specqbft.Round) bool {
		for k := 0; k < 600 && c.hp.Len() > 0; k++ {
			ok := 0
			for i := 0; i < c.n; i++ {
				if in := inst(i); in != nil && in.State.Round == round && in.State.ProposalAcceptedForCurrentRound != nil {
					ok++
				}
			}
			if ok == c.n {
				return true
			}
			c.runOne()
		}
		return false
	}
	beforeNextTimer := func() {
		var next time.Time
		for _, e := range c.hp {
			if e.kind == evTimeout && c.tgen[tkey{e.op, e.role}] == e.gen && (next.IsZero() || e.at.Before(next)) {
				next = e.at
			}
		}
		for !next.IsZero() && c.hp.Len() > 0 && c.hp[0].at.Before(next.Add(-time.Millisecond)) {
			c.runOne()
		}
	}
	untilRound := func(round specqbft.Round) {
		for k := 0; k < 2000 && c.hp.Len() > 0; k++ {
			low := specqbft.Round(1 << 20)
			for i := 0; i < c.n; i++ {
				if in := inst(i); in != nil && in.State.Round < low {
					low = in.State.Round
				}
			}
			if low >= round {
				return
			}
			c.runOne()
		}
	}
	defer func() { c.rxoff, c.txoff, c.cut, c.rxDrop = 0, 0, nil, nil }()
	const votes = 1<<1 | 1<<2 | 1<<4 // prepares, commits, decided messages
	c.rxDrop = make([]int64, c.n)
	for i := range c.rxDrop {
		c.rxDrop[i] = votes // round 1: the proposal is seen by everybody, no vote arrives anywhere
	}
	if !proposalEverywhere(1) {
		return
	}
	beforeNextTimer()
	c.rxDrop[x] = 0 // round 2: only x collects the prepares
	if !proposalEverywhere(2) {
		return
	}
	xi := inst(x)
	if xi == nil {
		return
	}
	for k := 0; k < 600 && c.hp.Len() > 0 && xi.State.LastPreparedRound < 2 && xi.State.Round == 2; k++ {
		c.runOne()
	}
	if xi.State.LastPreparedRound < 2 {
		return
	}
	c.rxDrop = nil
	c.rxoff, c.txoff = 0, all // rounds 3 and 4 are lost
	untilRound(4)
	beforeNextTimer()
	lead := c.leaderIdx(xi.State.Height, 5)
	// the leader's quorum must be completed by x's (prepared) round-change - the leader takes the value to
	// propose from the completing message: exactly one unprepared operator with a faster link than x
	// reaches the leader, the links of the others are down
	c.cut = map[[2]int]bool{}
	kept := -1
	for y := 0; y < c.n; y++ {
		if y == x || y == lead {
			continue
		}
		if kept < 0 && c.lat[y][lead] < c.lat[x][lead] {
			kept = y
		} else {
			c.cut[[2]int{y, lead}] = true
		}
	}
	if kept < 0 {
		c.d.Probe("re-lead-schedule-link-order-unsuitable")
	}
	c.txoff = 0
	c.d.Probe("re-lead-schedule-completed")
	c.d.Logf("t=%v relead: op=%d prepared in round 2, rounds 3-4 lost, round 5 led by op=%d", c.rel(), x+1, lead+1)
	until := time.Now().Add(2500 * time.Millisecond)
	for c.hp.Len() > 0 && !c.hp[0].at.After(until) {
		c.runOne()
	}
}

func (c *c10) gen(r *sim.Rand) *sim.Step {
	cfg := c.d.Cfg
	if len(c.w.plan) > 0 {
		s := c.w.plan[0]
		c.w.plan = c.w.plan[1:]
		return &s
	}
	if len(c.d.Steps) == 0 { // the duty schedule is known up front, as it is to the real scheduler
		var rs []int
		for i := range c10Roles {
			if cfg.Get("roles", 1)&(1<<uint(i)) != 0 {
				rs = append(rs, i)
			}
		}
		slots := int(cfg.Get("slots", 1))
		for _, ri := range rs {
			switch c10Roles[ri] {
			case spectypes.BNRoleSyncCommittee, spectypes.BNRoleSyncCommitteeContribution:
				for s := 0; s < slots; s++ {
					c.w.plan = append(c.w.plan, sim.Step{Op: "duty", A: []int64{int64(ri), int64(s), int64(r.Intn(1 << 30))}})
				}
			default:
				k := 1
				if slots > 1 && r.Chance(0.4) {
					k = 2
				}
				for _, s := range r.Perm(slots)[:k] {
					c.w.plan = append(c.w.plan, sim.Step{Op: "duty", A: []int64{int64(ri), int64(s), int64(r.Intn(1 << 30))}})
				}
			}
		}
		if c.mode > 0 { // faulty operators may misbehave from the start
			for i := 0; i < c.n; i++ {
				if c.isByz(i) && r.Chance(0.6) {
					c.w.plan = append(c.w.plan, c.genMute(r, i))
				}
			}
		}
		if c.mode > 1 && cfg.Get("lone_first", 0) == 1 {
			c.w.plan = append(c.w.plan, sim.Step{Op: "tostart"}, sim.Step{Op: "lone", A: []int64{int64(r.Intn(c.n))}})
		}
		if c.mode > 1 && cfg.Get("lone_first", 0) == 2 {
			c.w.plan = append(c.w.plan, sim.Step{Op: "tostart"}, sim.Step{Op: "relead", A: []int64{int64(r.Intn(c.n))}})
		}
		return c.gen(r)
	}
	if len(c.d.Steps) >= int(cfg.Get("steps", 60)) || c.hp.Len() == 0 {
		return nil
	}
	if time.Since(c.lastT0) > time.Duration(cfg.Get("horizon_s", 40))*time.Second {
		return nil
	}
	wm, wd, wo := 0, 0, 0
	if c.mode > 0 && c.byz != 0 {
		wm, wd = int(cfg.Get("w_mute", 20)), 4
	}
	if c.mode > 1 {
		wo = int(cfg.Get("w_outage", 6))
	}
	switch r.Weighted(50, 15, wm, wd, wo) {
	case 0:
		return &sim.Step{Op: "runev", A: []int64{int64([]int{0, 0, 1, 2, 4, 9, 19, 49}[r.Intn(8)])}}
	case 1:
		return &sim.Step{Op: "run", A: []int64{int64([]int{1, 5, 30, 150, 600, 1900, 2100, 4500, 13000}[r.Intn(9)])}}
	case 2:
		return c.genMuteAny(r)
	case 3:
		return &sim.Step{Op: "deaf", A: []int64{int64(c.pickByz(r)), c.genMask(r)}}
	default:
		m := int64(0)
		switch r.Intn(4) {
		case 0: // everybody back
		case 1: // a minority
			for _, i := range r.Perm(c.n)[:1+r.Intn(c.w.f)] {
				m |= 1 << uint(i)
			}
		default: // no quorum left
			for _, i := range r.Perm(c.n)[:c.w.f+1+r.Intn(c.n-c.w.f-1)] {
				m |= 1 << uint(i)
			}
		}
		if c.mode > 1 && r.Chance(0.3) {
			return &sim.Step{Op: "lone", A: []int64{int64(r.Intn(c.n))}}
		}
		switch r.Intn(5) {
		case 0:
			return &sim.Step{Op: "outage", A: []int64{m, 0}}
		case 1:
			return &sim.Step{Op: "outage", A: []int64{0, m}}
		}
		return &sim.Step{Op: "outage", A: []int64{m, m}}
	}
}

func (c *c10) pickByz(r *sim.Rand) int {
	var b []int
	for i := 0; i < c.n; i++ {
		if c.isByz(i) {
			b = append(b, i)
		}
	}
	if len(b) == 0 {
		return 0
	}
	return b[r.Intn(len(b))]
}

func (c *c10) genMask(r *sim.Rand) int64 {
	all := int64(1)<<uint(c.n+1) - 1
	switch r.Intn(5) {
	case 0:
		return 0
	case 1:
		return all
	case 2:
		return all &^ (1 << uint(r.Intn(c.n)))
	case 3:
		return 1 << uint(r.Intn(c.n))
	}
	return int64(r.Intn(int(all) + 1))
}

func (c *c10) genMute(r *sim.Rand, op int) sim.Step {
	kinds := int64(63)
	switch r.Intn(3) {
	case 0:
		kinds = 1 << uint(r.Intn(len(c10Kinds)))
	case 1:
		kinds = int64(1 + r.Intn(63))
	}
	return sim.Step{Op: "mute", A: []int64{int64(op), kinds, c.genMask(r)}}
}

func (c *c10) genMuteAny(r *sim.Rand) *sim.Step {
	s := c.genMute(r, c.pickByz(r))
	return &s
}

func runC10(t *testing.T, d *sim.D) {
	inBubble(t, func() {
		c := newC10(d)
		defer func() {
			for _, op := range c.w.ops {
				op.cancel()
			}
		}()
		for {
			s, ok := d.Next(c.gen)
			if !ok {
				break
			}
			c.exec(s)
		}
		// whatever is still in flight within the horizon is delivered (no new faults)
		end := c.lastT0.Add(time.Duration(d.Cfg.Get("horizon_s", 40)) * time.Second)
		for guard := 0; c.hp.Len() > 0 && !c.hp[0].at.After(end) && guard < 20000; guard++ {
			c.runOne()
		}
		done := 0
		for _, op := range c.w.ops {
			for _, r := range c10Roles {
				if st := op.runners[r].GetBaseRunner().State; st != nil && st.Finished {
					done++
				}
			}
		}
		if done > 0 {
			d.Probe("some-duty-finished")
		}
		for r := specqbft.Round(2); r <= c.maxRnd && r <= 12; r++ {
			d.Probe(fmt.Sprintf("reached-round-%02d", r))
		}
		d.Nontriv = c.judged >= 20 && c.duties > 0
	})
}

func init() {
	Specs["C10"] = &sim.Spec{Sim: "runnersim", Run: runC10,
		GenConfig: func(r *sim.Rand, tier string) sim.Config {
			n := []int{4, 4, 7}[r.Intn(3)]
			f := (n - 1) / 3
			mode := r.Weighted(25, 45, 30)
			rel := int64(0)
			if mode > 0 {
				k := 1 + r.Intn(f)
				if mode == 2 && r.Chance(0.3) {
					k = 0
				}
				first := r.Weighted(5, 3, 1, 1)
				for i := 0; i < k; i++ {
					if r.Chance(0.7) {
						rel |= 1 << uint((first+i)%n)
					} else {
						rel |= 1 << uint(r.Intn(n))
					}
				}
			}
			nroles := 1 + r.Weighted(6, 3, 1)
			roles := int64(0)
			for _, i := range r.Perm(len(c10Roles))[:nroles] {
				roles |= 1 << uint(i)
			}
			lm := []int64{2, 20, 100, 250}[r.Intn(4)]
			c := sim.Config{"n": int64(n), "mode": int64(mode), "byz_rel": rel, "roles": roles, "lat_max": lm, "lat_seed": int64(r.Intn(1 << 30)),
				"start_jit": []int64{0, 50, 300}[r.Intn(3)], "diverge": int64(r.Intn(2)), "sc_idx": int64(r.Intn(5)), "slots": int64(1 + r.Weighted(6, 3, 1)),
				"fork": int64(r.Weighted(5, 4, 2)), "steps": int64(30 + r.Intn(120)), "horizon_s": 30, "full_node": int64(r.Intn(2)), "w_mute": int64(5 + r.Intn(40)), "w_outage": int64(2 + r.Intn(12))}
			if mode > 0 {
				c["jit"] = []int64{0, lm / 2, lm}[r.Intn(3)]
				c["start_jit"] = []int64{0, 50, 300, 1500}[r.Intn(4)]
			}
			if mode == 2 && r.Chance(0.35) {
				c["lone_first"] = 1
			} else if mode == 2 && n == 4 && r.Chance(0.3) {
				c["lone_first"], c["diverge"] = 2, 1 // the round-1 leader leads again in round 5, with another value
			}
			if c["fork"] == 2 { // first duty in the last slot of the epoch before activation
				c["slot_base"] = 30
			}
			if mode == 2 && r.Chance(0.25) {
				c["horizon_s"] = 700 // slow rounds (2 minutes each) after round 8
			}
			return c
		},
		Real:        append([]string{"message/validation.MessageValidator.ValidatePubsubMessage (one instance per operator and one for a non-committee observer) with real operator/storage shares and operator/duties/dutystore", "protocol/v2/ssv/queue priority queue + prioritizer (the consumer's state/filter logic of validator.ConsumeQueue re-implemented, 30 lines)", "roundtimer.RoundTimer.RoundTimeout (deadlines)"}, realList...),
		Stub:        []string{"transport (per-link latency, omission, outage decided by the simulator)", "round timer goroutines (the event loop fires the deadline the real RoundTimer computes)", "beacon node, key manager as in C03", "p2p layer: Broadcast's envelope step re-implemented (sign with the real operator key when the fork is active at the sender's clock)", "clock (synctest bubble)"},
		Rule:        "committees of 4 and 7, 1-3 of the 7 roles, 1-3 slots, duties started at slot start + role offset + per-operator lag; per-link latency 1..lat_max ms (2/20/100/250). mode 0: fault-free, FIFO links; mode 1: <= f omission-faulty operators (named relative to the round-1 leader) that withhold chosen message kinds from chosen peers and ignore chosen senders; mode 2: additionally connectivity outages of arbitrary operator sets (messages lost, never late). Oracle at every (message of a correct operator, correct receiving peer): verdict != reject; in mode 0 verdict == accept. Non-trivial: >= 20 judged validations.",
		Assumptions: []string{"a correct peer knows the validator's duties (shared duty store) and share", "timing assumption as implemented: timers fire at the RoundTimer deadline, every delivered message arrives within lat_max (+jitter) <= 500 ms of being sent; lost messages (omission, outage) are never delivered later", "at most two attester / aggregator / registration / exit duties per epoch (one assigned, one after a re-org)"}}
}
