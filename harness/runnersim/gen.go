package runnersim

import (
	"encoding/json"
	"fmt"
	"strings"
	"testing"
	"testing/synctest"
	"time"

	"github.com/attestantio/go-eth2-client/spec/phase0"
	specqbft "github.com/bloxapp/ssv-spec/qbft"
	spectypes "github.com/bloxapp/ssv-spec/types"
	"github.com/bloxapp/ssv-spec/types/testingutils"
	"github.com/herumi/bls-eth-go-binary/bls"

	"github.com/bloxapp/ssv/protocol/v2/message"
	"github.com/bloxapp/ssv/protocol/v2/ssv/queue"
	ssvtypes "github.com/bloxapp/ssv/protocol/v2/types"
	"github.com/bloxapp/ssv/storage/basedb"

	"verifharness/sim"
)

func dutyFor(w *world, role spectypes.BeaconRole, slot phase0.Slot) *spectypes.Duty {
	var d spectypes.Duty
	switch role {
	case spectypes.BNRoleAttester:
		d = testingutils.TestingAttesterDuty
	case spectypes.BNRoleProposer:
		d = *testingutils.TestingProposerDutyV(4) // capella
	case spectypes.BNRoleAggregator:
		d = testingutils.TestingAggregatorDuty
	case spectypes.BNRoleSyncCommittee:
		d = testingutils.TestingSyncCommitteeDuty
	default:
		d = testingutils.TestingSyncCommitteeContributionDuty
	}
	d.Slot = slot
	copy(d.PubKey[:], w.ks.ValidatorPK.Serialize())
	return &d
}

func (w *world) startDuty(op *operator, role spectypes.BeaconRole, slot phase0.Slot) {
	duty := dutyFor(w, role, slot)
	prev := op.started[role]
	op.doing = fmt.Sprintf("start-duty %s slot=%d", roleName(role), slot)
	op.started[role] = duty
	var err error
	w.safely(op, "StartDuty", func() { err = op.v.StartDuty(logger, duty) })
	op.doing = ""
	if err != nil && prev != nil {
		op.started[role] = prev // refused: the previous duty remains the running one
	}
	es := "ok"
	if err != nil {
		es = "err(" + trim(err.Error()) + ")"
	}
	w.logf("start-duty op=%d %s slot=%d %s", op.id, roleName(role), slot, es)
	w.collect(op)
	w.afterStep(op, "duty")
}

func (w *world) timeoutEvent(op *operator, role spectypes.BeaconRole) {
	br := op.runners[role].GetBaseRunner()
	if br.State == nil || br.State.RunningInstance == nil {
		return
	}
	inst := br.State.RunningInstance
	data, _ := json.Marshal(ssvtypes.TimeoutData{Height: inst.State.Height, Round: inst.State.Round})
	ev := &ssvtypes.EventMsg{Type: ssvtypes.Timeout, Data: data}
	raw, _ := ev.Encode()
	m := &spectypes.SSVMessage{MsgType: message.SSVEventMsgType, MsgID: msgID(w.ks, role), Data: raw}
	dec, err := queue.DecodeSSVMessage(m)
	if err != nil {
		return
	}
	op.doing = "timeout " + roleName(role)
	w.safely(op, "ProcessMessage(timeout)", func() { _ = op.v.ProcessMessage(logger, dec) })
	op.doing = ""
	w.d.Fault("round-timeout")
	w.logf("timeout op=%d %s -> round %d", op.id, roleName(role), inst.State.Round)
	w.collect(op)
	w.afterStep(op, "timeout")
}

// corrupt: a faulty committee member's partial-signature message (derived from a valid one).
func (w *world) corrupt(s sim.Step) {
	mi := int(s.Arg(0))
	if mi < 0 || mi >= len(w.pool) {
		return
	}
	src := w.pool[mi]
	if src.kind != "pre" && src.kind != "post" {
		return
	}
	byz := w.d.Cfg.Get("byz_mask", 0)
	if byz&(1<<uint(src.from-1)) == 0 {
		return // only the (<= f) faulty members send wrong signatures
	}
	pm := &spectypes.SignedPartialSignatureMessage{}
	if pm.Decode(src.raw.Data) != nil || len(pm.Message.Messages) == 0 {
		return
	}
	r := sim.NewRand(uint64(s.Arg(2)))
	victim := pm.Message.Messages[r.Intn(len(pm.Message.Messages))]
	kinds := []string{"garbage-signature", "wrong-root", "signed-with-other-key", "truncated-signature"}
	k := int(s.Arg(1)) % len(kinds)
	switch k {
	case 0:
		victim.PartialSignature = r.Bytes(96)
	case 1:
		victim.SigningRoot[r.Intn(32)] ^= 0x01
	case 2:
		other := spectypes.OperatorID(1 + (int(src.from)+r.Intn(w.n-1))%w.n)
		sig := w.ks.Shares[other].SignByte(append([]byte(nil), victim.SigningRoot[:]...)) // fresh slice: cgo pointer rule
		victim.PartialSignature = sig.Serialize()
	case 3:
		victim.PartialSignature = victim.PartialSignature[:48]
	}
	raw, err := pm.Encode()
	if err != nil {
		return
	}
	w.d.Fault("partial-signature-" + kinds[k])
	m := &spectypes.SSVMessage{MsgType: src.raw.MsgType, MsgID: src.raw.MsgID, Data: raw}
	w.addToPool(src.from, m, false, nil)
}

// readdress: a valid message delivered under another role's or another validator's identifier.
func (w *world) readdress(s sim.Step) {
	mi, to := int(s.Arg(0)), int(s.Arg(1))%w.n
	if mi < 0 || mi >= len(w.pool) {
		return
	}
	src := w.pool[mi]
	id := src.raw.MsgID
	if s.Arg(2)%2 == 0 {
		other := roles[(int(s.Arg(2)/2)+1)%len(roles)]
		id = msgID(w.ks, other)
		if other == src.role {
			return
		}
		w.d.Fault("message-readdressed-to-other-role")
	} else {
		id = spectypes.NewMsgID(testingutils.TestingSSVDomainType, testingutils.TestingWrongValidatorPubKey[:], src.role)
		w.d.Fault("message-for-other-validator")
	}
	m := &spectypes.SSVMessage{MsgType: src.raw.MsgType, MsgID: id, Data: append([]byte(nil), src.raw.Data...)}
	dec, err := queue.DecodeSSVMessage(m)
	if err != nil {
		return
	}
	op := w.ops[to]
	op.doing = fmt.Sprintf("process readdressed #%d", mi)
	var perr error
	w.safely(op, "ProcessMessage(readdressed)", func() { perr = op.v.ProcessMessage(logger, dec) })
	op.doing = ""
	w.logf("readdressed #%d -> op=%d err=%v", mi, op.id, perr != nil)
	w.collect(op)
	w.afterStep(op, "readdress")
}

// decidedMsg: a certificate assembled by the simulator (it holds every share key): valid signatures
// of `nsig` members over (height, round, root of value).
func (w *world) decidedMsg(role spectypes.BeaconRole, height specqbft.Height, round specqbft.Round, value []byte, signers []spectypes.OperatorID) *spectypes.SSVMessage {
	root, _ := specqbft.HashDataRoot(value)
	mid := msgID(w.ks, role)
	msg := &specqbft.Message{MsgType: specqbft.CommitMsgType, Height: height, Round: round, Identifier: mid[:], Root: root}
	var sks []*bls.SecretKey
	for _, id := range signers {
		sks = append(sks, w.ks.Shares[id])
	}
	sm := testingutils.MultiSignQBFTMsg(sks, signers, msg)
	sm.FullData = value
	raw, err := sm.Encode()
	if err != nil {
		return nil
	}
	return &spectypes.SSVMessage{MsgType: spectypes.SSVConsensusMsgType, MsgID: mid, Data: raw}
}

func (w *world) flush(mask int64, max int, kinds string) {
	for it := 0; it < max; it++ {
		var next *pend
		for _, p := range w.pendingList() {
			if mask != 0 && mask&(1<<uint(p.to)) == 0 {
				continue
			}
			if kinds != "" && w.pool[p.msg].kind != kinds {
				continue
			}
			q := p
			next = &q
			break
		}
		if next == nil {
			return
		}
		w.deliver(w.pool[next.msg], w.ops[next.to])
		if w.d.V != nil {
			return
		}
	}
}

func (w *world) exec(s sim.Step) {
	switch s.Op {
	case "duty":
		w.startDuty(w.ops[int(s.Arg(0))%w.n], roles[int(s.Arg(1))%len(roles)], w.baseSlot+phase0.Slot(s.Arg(2)))
	case "deliver":
		m, to := int(s.Arg(0)), int(s.Arg(1))%w.n
		if m >= 0 && m < len(w.pool) {
			w.deliver(w.pool[m], w.ops[to])
		}
	case "flush":
		w.flush(s.Arg(0), int(s.Arg(1)), []string{"", "consensus", "pre", "post"}[int(s.Arg(2))%4])
	case "timeout":
		w.timeoutEvent(w.ops[int(s.Arg(0))%w.n], roles[int(s.Arg(1))%len(roles)])
	case "corrupt":
		w.corrupt(s)
	case "readdr":
		w.readdress(s)
	case "decided":
		// A=[to, role, slotDelta, _, nsigners]: a certificate any member could have assembled — the
		// aggregation of commit messages that honest operators really sent (no forged signatures, so the
		// fault assumption of at most f faulty members is respected); fewer than quorum signers = a
		// sub-quorum "decided" message that must be ignored.
		role := roles[int(s.Arg(1))%len(roles)]
		h := specqbft.Height(w.baseSlot + phase0.Slot(s.Arg(2)))
		groups := map[string][]*specqbft.SignedMessage{}
		var order []string
		for _, pm := range w.pool {
			if pm.kind != "consensus" || pm.role != role || !pm.valid || pm.from == 0 {
				continue
			}
			sm := &specqbft.SignedMessage{}
			if sm.Decode(pm.raw.Data) != nil || sm.Message.MsgType != specqbft.CommitMsgType || sm.Message.Height != h || len(sm.Signers) != 1 {
				continue
			}
			k := fmt.Sprint(sm.Message.Round, sm.Message.Root)
			if groups[k] == nil {
				order = append(order, k)
			}
			dup := false
			for _, x := range groups[k] {
				dup = dup || x.Signers[0] == sm.Signers[0]
			}
			if !dup {
				groups[k] = append(groups[k], sm)
			}
		}
		var best []*specqbft.SignedMessage
		for _, k := range order {
			if len(groups[k]) > len(best) {
				best = groups[k]
			}
		}
		if len(best) == 0 {
			return
		}
		n := 1 + int(s.Arg(4))%len(best)
		agg := best[0]
		for _, c := range best[1:n] {
			if agg.Aggregate(c) != nil {
				return
			}
		}
		agg.FullData = w.valueByRoot(agg.Message.Root)
		raw, err := agg.Encode()
		if err != nil {
			return
		}
		w.d.Fault("decided-message-injected")
		m := &spectypes.SSVMessage{MsgType: spectypes.SSVConsensusMsgType, MsgID: msgID(w.ks, role), Data: raw}
		w.addToPool(0, m, n == 1 || n >= w.quorum(), []int{int(s.Arg(0)) % w.n})
	case "straggler":
		w.straggler(int(s.Arg(0))%w.n, roles[int(s.Arg(1))%len(roles)])
	case "equiv":
		w.equivocate(int(s.Arg(0))%w.n, roles[int(s.Arg(1))%len(roles)])
	case "blackout":
		w.blackout(int(s.Arg(0))%w.n, roles[int(s.Arg(1))%len(roles)])
	case "advance":
		time.Sleep(time.Duration(s.Arg(0)) * time.Second)
	}
}

// equivocate: a faulty round-1 leader sends operator v a proposal for ANOTHER valid value (the one v
// itself would propose, so it passes v's own check) and withholds its real proposal from v; the others
// go on with the real one. One faulty member: within the fault assumption.
func (w *world) equivocate(v int, role spectypes.BeaconRole) {
	st := w.ops[v].runners[role].GetBaseRunner().State
	if st == nil || st.RunningInstance == nil {
		return
	}
	inst := st.RunningInstance
	if inst.State.Decided || inst.State.Round != 1 || inst.State.ProposalAcceptedForCurrentRound != nil || len(inst.StartValue) == 0 {
		return
	}
	leader := specqbft.RoundRobinProposer(inst.State, 1)
	if w.d.Cfg.Get("byz_mask", 0)&(1<<uint(leader-1)) == 0 || int(leader)-1 == v {
		return
	}
	var drop []pend
	for p := range w.pending {
		if pm := w.pool[p.msg]; p.to == v && pm.role == role && pm.from == leader && pm.kind == "consensus" && strings.Contains(pm.desc, "/proposal ") {
			drop = append(drop, p)
		}
	}
	for _, p := range drop {
		delete(w.pending, p)
	}
	root, err := specqbft.HashDataRoot(inst.StartValue)
	if err != nil {
		return
	}
	mid := msgID(w.ks, role)
	sm := testingutils.SignQBFTMsg(w.ks.Shares[leader], leader, &specqbft.Message{MsgType: specqbft.ProposalMsgType, Height: inst.State.Height, Round: 1, Identifier: mid[:], Root: root})
	sm.FullData = inst.StartValue
	raw, err := sm.Encode()
	if err != nil {
		return
	}
	w.d.Fault("equivocating-leader")
	w.addToPool(leader, &spectypes.SSVMessage{MsgType: spectypes.SSVConsensusMsgType, MsgID: mid, Data: raw}, false, []int{v})
}

// straggler: a deterministic macro step. Operator v falls behind: it decides the current duty of
// the role but does not get the post-consensus quorum; the rest of the committee finishes that duty
// and two more; v is then handed their consensus traffic (incl. the decided messages of the two
// higher heights) and finally every decided message of its own, still running height again.
func (w *world) straggler(v int, role spectypes.BeaconRole) {
	vic := w.ops[v]
	duty := vic.started[role]
	if duty == nil {
		return
	}
	w.d.Probe("script-straggler")
	others := int64(0)
	for i := range w.ops {
		if i != v {
			others |= 1 << uint(i)
		}
	}
	slotOf := func(k int64) phase0.Slot { return duty.Slot + phase0.Slot(k) }
	w.flush(0, 2000, "pre")
	w.flush(0, 2000, "consensus")
	w.flush(others, 2000, "")
	for k := int64(1); k <= 2 && w.d.V == nil; k++ {
		for i, op := range w.ops {
			if i != v {
				w.startDuty(op, role, slotOf(k))
			}
		}
		w.flush(others, 4000, "")
	}
	w.flush(1<<uint(v), 4000, "consensus")
	for _, pm := range w.pool {
		if w.d.V != nil {
			return
		}
		if pm.kind == "consensus" && pm.role == role && pm.slot == duty.Slot && pm.valid {
			sm := &specqbft.SignedMessage{}
			if sm.Decode(pm.raw.Data) == nil && sm.Message.MsgType == specqbft.CommitMsgType && len(sm.Signers) >= w.quorum() {
				w.deliver(pm, vic)
			}
		}
	}
}

// blackout: a deterministic macro step. Operator v receives the consensus traffic sent so far (it
// accepts the current proposal), then hears nothing while the others time out, agree in the next
// round (possibly on another value) and finish; finally v is handed only their decided messages.
func (w *world) blackout(v int, role spectypes.BeaconRole) {
	vic := w.ops[v]
	duty := vic.started[role]
	if duty == nil {
		return
	}
	w.d.Probe("script-blackout")
	others := int64(0)
	for i := range w.ops {
		if i != v {
			others |= 1 << uint(i)
		}
	}
	w.flush(0, 2000, "pre")
	w.flush(1<<uint(v), 2000, "consensus")
	for i, op := range w.ops {
		if i != v {
			w.timeoutEvent(op, role)
		}
	}
	w.flush(others, 4000, "")
	for _, pm := range w.pool {
		if w.d.V != nil {
			return
		}
		if pm.kind == "consensus" && pm.role == role && pm.slot == duty.Slot && pm.valid && w.pending[pend{pm.id, v}] {
			sm := &specqbft.SignedMessage{}
			if sm.Decode(pm.raw.Data) == nil && sm.Message.MsgType == specqbft.CommitMsgType && len(sm.Signers) >= w.quorum() {
				w.deliver(pm, vic)
			}
		}
	}
}

func inBubble(t *testing.T, f func()) {
	synctest.Test(t, func(t *testing.T) {
		// spec value checks read the clock ("duty epoch is into far future"): fixed instant after genesis
		gen := time.Unix(int64(beaconNet.MinGenesisTime()), 0)
		time.Sleep(time.Until(gen.Add(100 * 32 * 12 * time.Second)))
		f()
	})
}

func memDB() basedb.Database { return sim.NewMemDB() }
