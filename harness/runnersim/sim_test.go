package runnersim

import (
	"testing"

	"verifharness/sim"
)

func TestWorker(t *testing.T) { sim.WorkerMain(t, Specs) }
