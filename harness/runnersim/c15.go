package runnersim

import (
	"fmt"
	"runtime"
	"strings"
	"sync"
	"testing"
	"testing/synctest"

	"github.com/attestantio/go-eth2-client/spec"
	"github.com/attestantio/go-eth2-client/spec/phase0"
	specqbft "github.com/bloxapp/ssv-spec/qbft"
	spectypes "github.com/bloxapp/ssv-spec/types"
	"github.com/bloxapp/ssv-spec/types/testingutils"

	ibftstorage "github.com/bloxapp/ssv/ibft/storage"
	"github.com/bloxapp/ssv/protocol/v2/qbft/instance"
	qbftstorage "github.com/bloxapp/ssv/protocol/v2/qbft/storage"
	"github.com/bloxapp/ssv/protocol/v2/ssv/queue"
	"github.com/bloxapp/ssv/storage/basedb"
	"github.com/bloxapp/ssv/storage/kv"

	"verifharness/sim"
)

// C15: one operator's real attester runner + controller + real ibft/storage behind the
// fault-injecting database wrapper. The simulator holds every committee key, so it can hand the
// operator valid consensus traffic and valid decided certificates for any height, round and
// quorum-sized signer set.

type c15 struct {
	w          *world
	d          *sim.D
	inner      basedb.Database
	fdb        *sim.FaultDB
	op         *operator
	role       spectypes.BeaconRole
	h          int64    // model: highest height started or learned as decided since the last (re)start (slot offset; -1 none)
	hiSeen     [2]int64 // last observed stored highest (height offset, signers)
	perH       map[int64]int
	rounds     map[int64]map[specqbft.Round]bool // rounds of the valid certificates handed over, per height
	errFired   bool                              // the step being judged had a storage error injected into it
	decidedMax int64                             // highest height learned as decided (must survive restarts)
	rerun      map[int64]bool                    // heights whose duty was (wrongly) started again
}

// roundsClass: the known defect needs certificates of different rounds at one height.
func (c *c15) roundsClass(off int64) string {
	if c.errFired {
		return "after-storage-read-error"
	}
	if c.rerun[off] {
		return "after-rerun-of-decided-height"
	}
	if len(c.rounds[off]) > 1 {
		return "certificates-of-several-rounds"
	}
	return "single-round"
}

func (c *c15) boot() {
	c.fdb = sim.NewFaultDB(c.inner)
	c.op = c.w.newOperator(0, c.fdb)
	c.w.ops = []*operator{c.op}
	// what Validator.Start does for every runner: load the highest decided instance, resume from it
	mid := msgID(c.w.ks, c.role)
	br := c.op.runners[c.role].GetBaseRunner()
	if inst, err := br.QBFTController.LoadHighestInstance(mid[:]); err == nil && inst != nil {
		cd := &spectypes.ConsensusData{}
		if cd.Decode(inst.State.DecidedValue) == nil {
			br.SetHighestDecidedSlot(cd.Duty.Slot)
		}
	}
}

func (c *c15) slot(off int64) phase0.Slot { return c.w.baseSlot + phase0.Slot(off) }

func (c *c15) value(off int64, variant int64) []byte {
	duty := dutyFor(c.w, c.role, c.slot(off))
	if c.role == spectypes.BNRoleProposer {
		blk := copyBlock(testingutils.TestingBeaconBlockCapella)
		blk.Slot = duty.Slot
		raw, err := blk.MarshalSSZ()
		must(err)
		cd := &spectypes.ConsensusData{Duty: *duty, Version: spec.DataVersionCapella, DataSSZ: raw}
		b, err := cd.Encode()
		must(err)
		return b
	}
	att := copyAtt(testingutils.TestingAttestationData)
	att.Slot, att.Index = duty.Slot, duty.CommitteeIndex
	att.Target.Epoch = beaconNet.EstimatedEpochAtSlot(duty.Slot)
	att.Source.Epoch = att.Target.Epoch - 1
	_ = variant // one value per height: two certificates for different values at one height would need > f faulty members
	raw, _ := att.MarshalSSZ()
	cd := &spectypes.ConsensusData{Duty: *duty, Version: 0, DataSSZ: raw}
	b, err := cd.Encode()
	must(err)
	return b
}

func (c *c15) process(m *spectypes.SSVMessage) error {
	dec, err := queue.DecodeSSVMessage(m)
	if err != nil {
		return err
	}
	var perr error
	c.w.safely(c.op, "ProcessMessage", func() { perr = c.op.v.ProcessMessage(logger, dec) })
	return perr
}

func (c *c15) qmsg(t specqbft.MessageType, off int64, round specqbft.Round, value []byte, signer spectypes.OperatorID, withData bool) *spectypes.SSVMessage {
	root, _ := specqbft.HashDataRoot(value)
	mid := msgID(c.w.ks, c.role)
	msg := &specqbft.Message{MsgType: t, Height: specqbft.Height(c.slot(off)), Round: round, Identifier: mid[:], Root: root}
	sm := testingutils.SignQBFTMsg(c.w.ks.Shares[signer], signer, msg)
	if withData {
		sm.FullData = value
	}
	raw, _ := sm.Encode()
	return &spectypes.SSVMessage{MsgType: spectypes.SSVConsensusMsgType, MsgID: mid, Data: raw}
}

// storedHighest reads the durable highest decided directly from the inner database.
func (c *c15) storedHighest() (off int64, signers int, found bool) {
	st := ibftstorage.New(c.inner, c.role.String())
	mid := msgID(c.w.ks, c.role)
	hi, err := st.GetHighestInstance(mid[:])
	if err != nil || hi == nil || hi.DecidedMessage == nil {
		return 0, 0, false
	}
	return int64(hi.State.Height) - int64(c.w.baseSlot), len(hi.DecidedMessage.Signers), true
}

func (c *c15) judgeStore(when string) {
	d := c.d
	if off, n, ok := c.storedHighest(); ok {
		if off < c.hiSeen[0] || (off == c.hiSeen[0] && n < int(c.hiSeen[1])) {
			report := d.Violate
			if off == c.hiSeen[0] && c.roundsClass(off) != "single-round" {
				report = d.Finding // containable: the new (smaller) certificate becomes the baseline, the run goes on
			}
			report("stored-highest-regressed", map[bool]string{true: "lower-height", false: "fewer-signers/" + c.roundsClass(off)}[off < c.hiSeen[0]],
				"after %s the stored highest decided went from (height +%d, %d signers) to (height +%d, %d signers)", when, c.hiSeen[0], c.hiSeen[1], off, n)
			if d.V != nil {
				return
			}
		}
		c.hiSeen = [2]int64{off, int64(n)}
	} else if c.hiSeen[1] != 0 {
		d.Violate("stored-highest-regressed", "vanished", "after %s the stored highest decided instance is gone", when)
		return
	}
	if c.d.Cfg.Get("full_node", 0) == 1 {
		st := ibftstorage.New(c.inner, c.role.String())
		mid := msgID(c.w.ks, c.role)
		for off := int64(0); off < 8; off++ {
			si, err := st.GetInstance(mid[:], specqbft.Height(c.slot(off)))
			if err != nil || si == nil || si.DecidedMessage == nil {
				continue
			}
			if n := len(si.DecidedMessage.Signers); n < c.perH[off] {
				report := d.Violate
				if c.roundsClass(off) != "single-round" {
					report = d.Finding
				}
				report("stored-instance-regressed", "fewer-signers/"+c.roundsClass(off), "after %s the stored decided instance of height +%d went from %d to %d signers", when, off, c.perH[off], n)
				if d.V != nil {
					return
				}
				c.perH[off] = n
			} else {
				c.perH[off] = n
			}
		}
	}
}

// randaoFrom: the pre-consensus (RANDAO) partial signature of another committee member for the duty's epoch.
func (c *c15) randaoFrom(id spectypes.OperatorID, slot phase0.Slot) *spectypes.SSVMessage {
	epoch := beaconNet.EstimatedEpochAtSlot(slot)
	domain, err := c.op.beacon.DomainData(epoch, spectypes.DomainRandao)
	must(err)
	root, err := spectypes.ComputeETHSigningRoot(spectypes.SSZUint64(epoch), domain)
	must(err)
	sk := c.w.ks.Shares[id]
	msgs := spectypes.PartialSignatureMessages{Type: spectypes.RandaoPartialSig, Slot: slot,
		Messages: []*spectypes.PartialSignatureMessage{{PartialSignature: sk.SignByte(root[:]).Serialize(), SigningRoot: root, Signer: id}}}
	sig, err := testingutils.NewTestingKeyManager().SignRoot(msgs, spectypes.PartialSignatureType, sk.GetPublicKey().Serialize())
	must(err)
	raw, err := (&spectypes.SignedPartialSignatureMessage{Message: msgs, Signature: sig, Signer: id}).Encode()
	must(err)
	return &spectypes.SSVMessage{MsgType: spectypes.SSVPartialSignatureMsgType, MsgID: msgID(c.w.ks, c.role), Data: raw}
}

func c15Goid() string {
	b := make([]byte, 64)
	b = b[:runtime.Stack(b, false)]
	f := strings.Fields(string(b))
	if len(f) > 1 {
		return f[1]
	}
	return "?"
}

// twoSave: the per-role store is ONE object shared by all validators of the node. Two other validators
// save their highest decided instance at the same time; the two goroutines park at every storage call
// and are released in the order the step prescribes (quiescence = synctest.Wait: parked goroutines wait
// on a channel). Afterwards each validator must read back its own certificate.
func (c *c15) twoSave(s sim.Step) string {
	st := c.op.stores.Get(c.role)
	cfg := c.op.runners[c.role].GetBaseRunner().QBFTController.GetConfig()
	mk := func(tag byte, off int64) *qbftstorage.StoredInstance {
		id := msgID(c.w.ks, c.role)
		id[10] ^= tag // another validator's public key inside the message id
		inst := instance.NewInstance(cfg, &c.op.share.Share, id[:], specqbft.Height(c.slot(off)))
		val := c.value(off, 0)
		dm := &specqbft.SignedMessage{}
		must(dm.Decode(c.w.decidedMsg(c.role, specqbft.Height(c.slot(off)), 1, val, []spectypes.OperatorID{1, 2, 3}).Data))
		dm.Message.Identifier = id[:]
		inst.State.Decided, inst.State.DecidedValue = true, val
		return &qbftstorage.StoredInstance{State: inst.State, DecidedMessage: dm}
	}
	insts := []*qbftstorage.StoredInstance{mk(0x55, 3+s.Arg(1)%4), mk(0xaa, s.Arg(2)%3)}
	gates := []chan struct{}{make(chan struct{}), make(chan struct{})}
	var mu sync.Mutex
	who := map[string]int{}
	done := []bool{false, false}
	errs := []error{nil, nil}
	c.fdb.Yield = func(op string) {
		mu.Lock()
		k, ok := who[c15Goid()]
		mu.Unlock()
		if ok {
			<-gates[k]
		}
	}
	for k := range insts {
		go func(k int) {
			mu.Lock()
			who[c15Goid()] = k
			mu.Unlock()
			errs[k] = st.SaveHighestInstance(insts[k])
			mu.Lock()
			done[k] = true
			mu.Unlock()
		}(k)
		synctest.Wait() // parked at its first storage call (or finished)
	}
	order := []int{0, 1}
	if s.Arg(0)%2 == 1 {
		order = []int{1, 0}
	}
	for _, k := range order {
		for i := 0; i < 50; i++ {
			mu.Lock()
			d := done[k]
			mu.Unlock()
			if d {
				break
			}
			gates[k] <- struct{}{}
			synctest.Wait()
		}
	}
	c.fdb.Yield = nil
	c.d.Fault("concurrent-store-access")
	for k, in := range insts {
		got, err := st.GetHighestInstance(in.State.ID)
		switch {
		case errs[k] != nil:
			// an injected storage fault may fail a save; nothing to compare then
		case err != nil || got == nil:
			c.d.Violate("stored-highest-of-other-validator-lost", "concurrent-save", "two validators saved their highest decided instance through the shared %s store at the same time; validator %d's certificate (height +%d) cannot be read back (err=%v)", c.role, k, int64(in.State.Height)-int64(c.w.baseSlot), err)
		case got.State.Height != in.State.Height || string(got.State.ID) != string(in.State.ID):
			c.d.Violate("stored-highest-of-other-validator-replaced", "concurrent-save", "two validators saved their highest decided instance through the shared %s store at the same time; validator %d reads back height +%d of another validator instead of its own height +%d", c.role, k, int64(got.State.Height)-int64(c.w.baseSlot), int64(in.State.Height)-int64(c.w.baseSlot))
		}
	}
	return fmt.Sprintf("twosave order=%v errs=%v", order, errs)
}

func (c *c15) step(s sim.Step) string {
	br := c.op.runners[c.role].GetBaseRunner()
	switch s.Op {
	case "twosave":
		return c.twoSave(s)
	case "preq":
		// proposer duties: the RANDAO partial signatures of the other members arrive; with a quorum the
		// runner fetches a block and starts consensus for the duty's height - unless that height is
		// already known as decided (the certificate may overtake the pre-consensus phase)
		if c.role != spectypes.BNRoleProposer || br.State == nil || br.State.StartingDuty == nil || br.State.Finished {
			return "preq: no duty waiting"
		}
		slot := br.State.StartingDuty.Slot
		off := int64(slot) - int64(c.w.baseSlot)
		hadRunning := br.State.RunningInstance != nil
		c.op.net.out = nil
		for id := 2; id <= c.w.quorum()+1 && id <= c.w.n; id++ {
			_ = c.process(c.randaoFrom(spectypes.OperatorID(id), slot))
		}
		started := 0
		for _, m := range c.op.net.out {
			if m.MsgType == spectypes.SSVConsensusMsgType {
				sm := &specqbft.SignedMessage{}
				if sm.Decode(m.Data) == nil && sm.Message.Height == specqbft.Height(slot) {
					started++
				}
			}
		}
		c.op.net.out = nil
		if !hadRunning && (started > 0 || br.State.RunningInstance != nil) {
			switch {
			case off <= c.decidedMax && c.d.Probes["restart"] > 0 && func() bool { st, _, ok := c.storedHighest(); return !ok || st < off }():
				// known class (same as for StartDuty): the decided height was never recorded as the durable highest
				c.d.Finding("old-duty-started", "after-restart/decided-height-not-recorded-as-highest", "after a restart the RANDAO quorum for slot +%d completed and consensus was started although a decided certificate for that height had been processed before the restart (it was not recorded as the highest decided)", off)
				c.rerun[off] = true
			case off <= c.decidedMax:
				c.d.Violate("decided-height-run-again", "pre-consensus-completed-after-decided", "the RANDAO quorum for slot +%d completed after a decided certificate for that height had been processed, and the runner started consensus for it (%d consensus broadcasts, running instance=%v)", off, started, br.State.RunningInstance != nil)
			case off <= c.h:
				c.d.Violate("old-duty-started", "pre-consensus-completed/same-process", "the RANDAO quorum for slot +%d completed and consensus was started although height +%d had already been started", off, c.h)
			default:
				c.h = off
				c.d.Probe("duty-started")
			}
		}
		c.d.Probe("pre-consensus-quorum-delivered")
		return fmt.Sprintf("preq +%d consensus-broadcasts=%d running=%v", off, started, br.State.RunningInstance != nil)
	case "duty":
		off := s.Arg(0) % 8
		nInst := len(br.QBFTController.StoredInstances)
		hadInst := br.QBFTController.StoredInstances.FindInstance(specqbft.Height(c.slot(off))) != nil
		var err error
		c.w.safely(c.op, "StartDuty", func() { err = c.op.v.StartDuty(logger, dutyFor(c.w, c.role, c.slot(off))) })
		sent := len(c.op.net.out)
		if c.role == spectypes.BNRoleProposer {
			// starting a proposer duty only opens the pre-consensus phase (a RANDAO partial signature);
			// consensus for the height starts - or must be refused - when the RANDAO quorum completes (preq)
			sent = 0
			for _, m := range c.op.net.out {
				if m.MsgType == spectypes.SSVConsensusMsgType {
					sent++
				}
			}
			if err == nil && !(off <= c.h && (sent > 0 || (!hadInst && br.QBFTController.StoredInstances.FindInstance(specqbft.Height(c.slot(off))) != nil))) {
				c.op.net.out = nil
				c.d.Probe("proposer-duty-opened")
				return fmt.Sprintf("duty +%d (proposer, pre-consensus) err=%v", off, err != nil)
			}
		}
		c.op.net.out = nil
		if off <= c.h {
			_ = nInst
			newInst := !hadInst && br.QBFTController.StoredInstances.FindInstance(specqbft.Height(c.slot(off))) != nil
			if err == nil || sent > 0 || newInst {
				sig, report := map[bool]string{true: "after-restart", false: "same-process"}[c.d.Probes["restart"] > 0], c.d.Violate
				if st, _, ok := c.storedHighest(); c.d.Probes["restart"] > 0 && off <= c.decidedMax && (!ok || st < off) {
					// known class: the decided height was never recorded as the durable highest
					sig, report = "after-restart/decided-height-not-recorded-as-highest", c.d.Finding
				}
				report("old-duty-started", sig, "StartDuty for slot +%d was accepted (err=%v, %d broadcasts) although height +%d was already started or decided (highest decided learned: +%d)", off, err, sent, c.h, c.decidedMax)
				c.rerun[off] = true
				if err == nil && off > c.h {
					c.h = off
				}
			}
			c.d.Probe("old-duty-refused")
		} else if err == nil {
			c.h = off
			c.d.Probe("duty-started")
		}
		return fmt.Sprintf("duty +%d err=%v", off, err != nil)
	case "decide":
		// drive the running instance to a local decision in round 1 with messages of the other members
		if br.State == nil || br.State.RunningInstance == nil || br.State.RunningInstance.State.Decided {
			return "decide: nothing running"
		}
		inst := br.State.RunningInstance
		off := int64(inst.State.Height) - int64(c.w.baseSlot)
		leader := specqbft.RoundRobinProposer(inst.State, 1)
		val := inst.StartValue
		if leader != c.op.id {
			val = c.value(off, 1+s.Arg(0)%3)
		}
		_ = c.process(c.qmsg(specqbft.ProposalMsgType, off, 1, val, leader, true))
		q := c.w.quorum()
		for id := 1; id <= q; id++ {
			_ = c.process(c.qmsg(specqbft.PrepareMsgType, off, 1, val, spectypes.OperatorID(id), false))
		}
		for id := 1; id <= q; id++ {
			_ = c.process(c.qmsg(specqbft.CommitMsgType, off, 1, val, spectypes.OperatorID(id), false))
		}
		c.op.net.out = nil
		if inst.State.Decided {
			c.d.Probe("local-decision")
			if c.rounds[off] == nil {
				c.rounds[off] = map[specqbft.Round]bool{}
			}
			c.rounds[off][inst.State.Round] = true // the local decision is a certificate of that round
			if off > c.h {
				c.h = off
			}
			if off > c.decidedMax {
				c.decidedMax = off
			}
		}
		return fmt.Sprintf("decide +%d decided=%v", off, inst.State.Decided)
	case "decided":
		// A=[heightOff 0..7, round, signer set kind, value variant]
		off, round := s.Arg(0)%8, specqbft.Round(1+s.Arg(1)%3)
		q := c.w.quorum()
		var signers []spectypes.OperatorID
		switch s.Arg(2) % 4 {
		case 0:
			for id := 1; id <= q; id++ {
				signers = append(signers, spectypes.OperatorID(id))
			}
		case 1:
			for id := c.w.n - q + 1; id <= c.w.n; id++ {
				signers = append(signers, spectypes.OperatorID(id))
			}
		case 2:
			for id := 1; id <= c.w.n; id++ {
				signers = append(signers, spectypes.OperatorID(id))
			}
		default:
			for id := 1; id <= q-1; id++ { // sub-quorum: must be ignored
				signers = append(signers, spectypes.OperatorID(id))
			}
		}
		m := c.w.decidedMsg(c.role, specqbft.Height(c.slot(off)), round, c.value(off, s.Arg(3)%2), signers)
		if len(signers) >= q {
			if c.rounds[off] == nil {
				c.rounds[off] = map[specqbft.Round]bool{}
			}
			c.rounds[off][round] = true
		}
		err := c.process(m)
		c.op.net.out = nil
		if len(signers) >= q && off > c.decidedMax {
			c.decidedMax = off // a valid certificate was handed over and processed: learned as decided
		}
		if err == nil && len(signers) >= q && off > c.h {
			c.h = off
		}
		c.d.Fault(fmt.Sprintf("decided-msg-%d-signers", len(signers)))
		return fmt.Sprintf("decided +%d r%d signers=%d err=%v", off, round, len(signers), err != nil)
	case "timeout":
		// the local instance moves to the next round (its round then differs from later certificates')
		if br.State != nil && br.State.RunningInstance != nil && !br.State.RunningInstance.State.Decided && br.State.RunningInstance.State.Round < 6 {
			c.w.timeoutEvent(c.op, c.role)
			c.op.net.out = nil
			return fmt.Sprintf("timeout -> round %d", br.State.RunningInstance.State.Round)
		}
		return "timeout: nothing running"
	case "restart":
		c.d.Probe("restart")
		c.op.cancel()
		c.boot()
		// the statement: the highest decided instance survives a restart
		c.h = c.decidedMax
		st, _, _ := c.storedHighest()
		return fmt.Sprintf("restart -> must resume at +%d (stored highest +%d)", c.h, st)
	}
	return "?"
}

func runC15(t *testing.T, d *sim.D) {
	inBubble(t, func() {
		w := &world{d: d, prop: "C15", n: 4, f: 1, ks: keySet(4), pending: map[pend]bool{}, signedOnce: map[string]bool{},
			certified: map[string][]byte{}, commitSeen: map[string]map[spectypes.OperatorID]bool{}, dutiesStarted: map[int]int{}}
		w.baseSlot = beaconNet.EstimatedCurrentSlot()
		role := spectypes.BNRoleAttester
		if d.Cfg.Get("proposer", 0) == 1 {
			role = spectypes.BNRoleProposer
		}
		c := &c15{w: w, d: d, role: role, h: -1, hiSeen: [2]int64{-1, 0}, perH: map[int64]int{}, rounds: map[int64]map[specqbft.Round]bool{}, decidedMax: -1, rerun: map[int64]bool{}}
		if d.Cfg.Get("badger", 0) == 1 {
			db, err := kv.NewInMemory(logger, basedb.Options{})
			must(err)
			c.inner = db
			defer db.Close()
		} else {
			c.inner = sim.NewMemDB()
		}
		c.boot()
		gen := func(r *sim.Rand) *sim.Step {
			if len(d.Steps) >= int(d.Cfg.Get("steps", 30)) {
				return nil
			}
			near := c.h + int64(r.Weighted(2, 3, 4, 2, 1)) - 2
			if near < 0 {
				near = 0
			}
			if r.Chance(0.12) {
				return &sim.Step{Op: "timeout"}
			}
			if r.Chance(0.06) {
				return &sim.Step{Op: "twosave", A: []int64{int64(r.Intn(2)), int64(r.Intn(4)), int64(r.Intn(3))}}
			}
			if c.role == spectypes.BNRoleProposer && r.Chance(0.25) {
				return &sim.Step{Op: "preq"}
			}
			switch r.Weighted(8, 6, 10, 3, int(d.Cfg.Get("w_fault", 3))) {
			case 0:
				return &sim.Step{Op: "duty", A: []int64{near}}
			case 1:
				return &sim.Step{Op: "decide", A: []int64{int64(r.Intn(3))}}
			case 2:
				return &sim.Step{Op: "decided", A: []int64{near, int64(r.Intn(3)), int64(r.Weighted(3, 3, 3, 1)), int64(r.Intn(2))}}
			case 3:
				return &sim.Step{Op: "restart"}
			default:
				ops := []string{"duty", "decide", "decided"}
				in := &sim.Step{Op: ops[r.Weighted(2, 4, 5)], A: []int64{near, int64(r.Intn(3)), int64(r.Weighted(3, 3, 3, 1)), int64(r.Intn(2))}}
				return &sim.Step{Op: "fault", A: append([]int64{int64(1 + r.Intn(8)), int64(1 + r.Intn(3))}, in.A...), S: []string{in.Op}}
			}
		}
		for {
			s, ok := d.Next(gen)
			if !ok {
				break
			}
			if s.Op == "fault" {
				inner := sim.Step{Op: s.Str(0), A: s.A[2:]}
				c.fdb.At, c.fdb.Mode = c.fdb.Calls+int(s.Arg(0)), int(s.Arg(1))%4
				var res string
				crash := sim.RunToCrash(func() { res = c.step(inner) })
				kind := []string{"none", "crash-before", "crash-after", "storage-error"}[int(s.Arg(1))%4]
				fired := c.fdb.Fired != ""
				c.errFired = fired && crash == nil
				c.fdb.At, c.fdb.Fired = 0, ""
				if crash != nil {
					d.Fault(kind)
					d.Logf("%s in %s at storage call +%d (%s) -> restart", kind, inner.Op, s.Arg(0), crash.Op)
					if inner.Op == "decided" {
						// the crash may have come after the certificate had become durable: what the node
						// has learned as decided is what its database holds
						off := inner.Arg(0) % 8
						st := ibftstorage.New(c.inner, c.role.String())
						mid := msgID(c.w.ks, c.role)
						if si, err := st.GetInstance(mid[:], specqbft.Height(c.slot(off))); err == nil && si != nil && si.DecidedMessage != nil && off > c.decidedMax {
							c.decidedMax = off
							d.Probe("certificate-durable-before-crash")
						}
						if hoff, _, ok := c.storedHighest(); ok && hoff > c.decidedMax {
							c.decidedMax = hoff
						}
					}
					c.step(sim.Step{Op: "restart"})
				} else {
					if fired {
						d.Fault(kind)
					}
					d.Logf("%s (fault %s armed +%d fired=%v)", res, kind, s.Arg(0), fired)
				}
			} else {
				d.Logf("%s", c.step(s))
			}
			c.judgeStore(s.Op)
			c.errFired = false
			d.State("c15", s.Op, fmt.Sprintf("h=%d hi=%v", c.h, c.hiSeen))
			if d.V != nil {
				break
			}
		}
		c.op.cancel()
		d.Nontriv = d.Probes["duty-started"] > 0 && c.hiSeen[1] > 0
	})
}

func init() {
	Specs["C15"] = &sim.Spec{Sim: "runnersim", Run: runC15,
		GenConfig: func(r *sim.Rand, tier string) sim.Config {
			c := sim.Config{"n": 4, "full_node": int64(r.Intn(2)), "steps": int64(10 + r.Intn(50)), "badger": int64(r.Weighted(6, 1)), "w_fault": int64(r.Intn(6)), "proposer": int64(r.Weighted(3, 1))}
			if tier == "thorough" {
				c["steps"] = int64(10 + r.Intn(120))
			}
			return c
		},
		Real:        []string{"validator.Validator.StartDuty / ProcessMessage, attester runner (BaseRunner.baseStartNewDuty, ShouldProcessDuty, baseConsensusMsgProcessing, SaveInstance)", "qbft controller (StartNewInstance, UponDecided, LoadHighestInstance, InstanceContainer) + instance", "ibft/storage (SaveInstance / SaveHighestInstance / SaveHighestAndHistoricalInstance / GetHighestInstance / GetInstance) on sim.MemDB or in-memory Badger (1 of 7 runs), always behind the fault-injecting wrapper", "full and light node"},
		Stub:        []string{"the other committee members (the simulator signs their proposals, prepares, commits and decided certificates with the real share keys)", "beacon node, transport, timers, clock as in C03", "restart = Validator.Start's loading of the highest instance re-implemented (8 lines)"},
		Rule:        "seeded histories for one operator: StartDuty(slot below / equal / above the current height), drive the running instance to a local decision, decided certificates for past / current / future heights with quorum, disjoint-quorum, full and sub-quorum signer sets in rounds 1-3 and two values, restarts on the same database, operations interrupted at their k-th storage call (crash before / after, storage error) followed by restart. Reference model: H = highest height started or learned as decided (after restart: the durable highest decided). Oracle: StartDuty(s <= H) is refused without instance or broadcast; the stored highest decided never regresses in (height, signer count); per stored height the signer count never decreases. Non-trivial: a duty started and something stored.",
		Assumptions: []string{"durable state = committed database writes", "certificates are assembled with the real share keys of all members (the simulator plays the rest of the committee)"}}
}
