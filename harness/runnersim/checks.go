package runnersim

import (
	"testing"

	spectypes "github.com/bloxapp/ssv-spec/types"

	"verifharness/sim"
)

func genConfig(prop string) func(r *sim.Rand, tier string) sim.Config {
	return func(r *sim.Rand, tier string) sim.Config {
		n := 4
		if prop == "C05" {
			n = []int{4, 4, 7, 10, 13}[r.Intn(5)]
		} else if r.Intn(6) == 0 {
			n = 7
		}
		f := (n - 1) / 3
		mask := int64(0)
		for _, i := range r.Perm(n)[:r.Intn(f+1)] {
			mask |= 1 << uint(i)
		}
		c := sim.Config{"n": int64(n), "byz_mask": mask, "full_node": int64(r.Intn(2)), "diverge": int64(r.Intn(2)),
			"roles": int64(1 + r.Intn(1<<uint(len(roles))-1)), "steps": int64(40 + r.Intn(200)), "duties": int64(1 + r.Intn(3)),
			"w_deliver": int64(50 + r.Intn(40)), "w_timeout": int64(r.Intn(4)), "w_fault": int64(2 + r.Intn(10))}
		if prop == "C03" && r.Chance(0.4) {
			c["picky"], c["picky_against"], c["diverge"] = int64(r.Intn(n)), int64(r.Intn(n)), 1
			c["roles"] = c["roles"] | 1 // attester: the role with an operator-local validity check
		}
		if n >= 10 {
			c["roles"] = int64(1 << uint(r.Intn(len(roles)))) // one role only: BLS cost
			c["steps"] = int64(40 + r.Intn(80))
			c["duties"] = 1
		}
		return c
	}
}

func (w *world) activeRoles() []int {
	var out []int
	for i := range roles {
		if w.d.Cfg.Get("roles", 1)&(1<<uint(i)) != 0 {
			out = append(out, i)
		}
	}
	return out
}

// gen: online generator shared by C03 and C05 (different weights).
func (w *world) gen(r *sim.Rand) *sim.Step {
	if len(w.plan) > 0 {
		s := w.plan[0]
		w.plan = w.plan[1:]
		return &s
	}
	cfg := w.d.Cfg
	if len(w.d.Steps) >= int(cfg.Get("steps", 100)) {
		return nil
	}
	ar := w.activeRoles()
	pl := w.pendingList()
	// start duties: the whole committee starts the same duty (at slightly different moments); a role
	// gets its next duty when the previous one is finished everywhere (or, rarely, while it still runs:
	// the runner then abandons the old duty)
	var idle []int
	for _, ri := range ar {
		n, fin := 0, true
		for _, op := range w.ops {
			if op.started[roles[ri]] != nil {
				n++
				if st := op.runners[roles[ri]].GetBaseRunner().State; st != nil && !st.Finished {
					fin = false
				}
			}
		}
		if n == 0 || (fin && w.dutiesStarted[ri] < int(cfg.Get("duties", 1))) || r.Chance(0.004) {
			idle = append(idle, ri)
		}
	}
	wantDuty := 0
	if len(idle) > 0 {
		wantDuty = 25
		if len(pl) == 0 {
			wantDuty = 1000
		}
	}
	wd, wt, wf := int(cfg.Get("w_deliver", 60)), int(cfg.Get("w_timeout", 1)), int(cfg.Get("w_fault", 5))
	if len(pl) == 0 {
		wd = 0
	}
	if len(w.pool) == 0 {
		wf = 0
	}
	if wantDuty+wd+wt+wf == 0 {
		return nil
	}
	switch r.Weighted(wantDuty, wd, wt, wf, 3) {
	case 0:
		role := idle[r.Intn(len(idle))]
		w.dutiesStarted[role]++
		// slot of the new duty: above everything started for that role, sometimes an old slot
		slot := int64(0)
		for _, op := range w.ops {
			if d := op.started[roles[role]]; d != nil && int64(d.Slot-w.baseSlot) >= slot {
				slot = int64(d.Slot-w.baseSlot) + 1
			}
		}
		if r.Chance(0.1) && slot > 0 {
			slot -= int64(1 + r.Intn(int(slot)))
		}
		// one operator at a time, or the whole committee in a row
		if r.Chance(0.85) {
			for _, i := range r.Perm(w.n) {
				w.plan = append(w.plan, sim.Step{Op: "duty", A: []int64{int64(i), int64(role), slot}})
			}
			if w.prop == "C03" && cfg.Get("byz_mask", 0) != 0 && r.Chance(0.4) { // a faulty round-1 leader equivocates right away
				w.plan = append(w.plan, sim.Step{Op: "equiv", A: []int64{int64(r.Intn(w.n)), int64(role)}})
			}
			return w.gen(r)
		}
		return &sim.Step{Op: "duty", A: []int64{int64(r.Intn(w.n)), int64(role), slot}}
	case 1:
		if w.prop == "C05" && r.Chance(0.25) { // drive consensus quickly, spend the schedule on the signature phases
			return &sim.Step{Op: "flush", A: []int64{0, 300, 1}}
		}
		k := r.Intn(len(pl))
		if r.Chance(0.5) {
			k = r.Intn(1 + len(pl)/4)
		}
		return &sim.Step{Op: "deliver", A: []int64{int64(pl[k].msg), int64(pl[k].to)}}
	case 2:
		return &sim.Step{Op: "timeout", A: []int64{int64(r.Intn(w.n)), int64(ar[r.Intn(len(ar))])}}
	case 3:
		return w.genFault(r, ar)
	default:
		return &sim.Step{Op: "flush", A: []int64{int64(r.Intn(1 << uint(w.n))), int64(10 + r.Intn(200)), int64(r.Intn(4))}}
	}
}

func (w *world) genFault(r *sim.Rand, ar []int) *sim.Step {
	// candidates for corruption: partial-signature messages of faulty members
	var psigs []int
	for _, pm := range w.pool {
		if (pm.kind == "pre" || pm.kind == "post") && pm.valid && w.d.Cfg.Get("byz_mask", 0)&(1<<uint(pm.from-1)) != 0 {
			psigs = append(psigs, pm.id)
		}
	}
	wc := 0
	if len(psigs) > 0 {
		wc = 8
		if w.prop == "C05" {
			wc = 30
		}
	}
	wr, wdec := 6, 5
	if w.prop == "C05" {
		wr, wdec = 1, 1
	}
	if w.prop == "C03" && r.Chance(0.12) {
		v := int64(r.Intn(w.n))
		if p := w.d.Cfg.Get("picky", -1); p >= 0 && r.Chance(0.7) {
			v = p
		}
		return &sim.Step{Op: "blackout", A: []int64{v, int64(ar[r.Intn(len(ar))])}}
	}
	if w.prop == "C03" && r.Chance(0.12) {
		return &sim.Step{Op: "straggler", A: []int64{int64(r.Intn(w.n)), int64(ar[r.Intn(len(ar))])}}
	}
	if w.prop == "C03" && w.d.Cfg.Get("byz_mask", 0) != 0 && r.Chance(0.2) {
		return &sim.Step{Op: "equiv", A: []int64{int64(r.Intn(w.n)), int64(ar[r.Intn(len(ar))])}}
	}
	switch r.Weighted(wc, 6, wr, wdec) {
	case 0:
		return &sim.Step{Op: "corrupt", A: []int64{int64(psigs[r.Intn(len(psigs))]), int64(r.Intn(4)), int64(r.U64() >> 1)}}
	case 1: // duplicate / late redelivery, incl. messages of finished duties and other heights
		return &sim.Step{Op: "deliver", A: []int64{int64(r.Intn(len(w.pool))), int64(r.Intn(w.n))}}
	case 2:
		return &sim.Step{Op: "readdr", A: []int64{int64(r.Intn(len(w.pool))), int64(r.Intn(w.n)), int64(r.Intn(10))}}
	default:
		return &sim.Step{Op: "decided", A: []int64{int64(r.Intn(w.n)), int64(ar[r.Intn(len(ar))]), int64(r.Intn(4)) - 1, int64(r.Intn(3)), int64(r.Intn(w.n)), 0}}
	}
}

func runProp(prop string) func(t *testing.T, d *sim.D) {
	return func(t *testing.T, d *sim.D) {
		inBubble(t, func() {
			w := newWorld(d, prop, memDB)
			defer func() {
				for _, op := range w.ops {
					op.cancel()
				}
			}()
			for {
				s, ok := d.Next(w.gen)
				if !ok {
					break
				}
				w.exec(s)
			}
			if d.V == nil && prop == "C05" {
				// faults stop: deliver everything that is still in flight, then judge liveness
				w.flush(0, 5000, "")
				if d.V == nil {
					w.livenessC05()
				}
			}
			subs := 0
			for _, s := range w.subs {
				if s.ok {
					subs++
				}
			}
			if subs > 0 {
				d.Probe("some-submission")
			}
			d.Nontriv = len(w.signs) >= 2 && len(d.Steps) >= 15
		})
	}
}

var realList = []string{"protocol/v2/ssv/validator.Validator (NewValidator, StartDuty, ProcessMessage incl. validateMessage and event messages)", "protocol/v2/ssv/runner: attester, proposer, aggregator, sync-committee, sync-committee-contribution runners from their constructors (BaseRunner pre/consensus/post processing, FallBackAndVerifyEachSignature, resolveDuplicateSignature)", "protocol/v2/qbft controller + instance", "ssv-spec value checks (AttesterValueCheckF ...), ConsensusData codecs, PartialSigContainer", "protocol/v2/types.ReconstructSignature / VerifyReconstructedSignature", "ibft/storage on sim.MemDB"}
var stubList = []string{"beacon node (scripted: slot-adjusted spec test objects; verifies every signature it is handed with herumi)", "transport (capture; deliveries are scheduler steps)", "round timers (recording; timeouts are scheduler steps through Validator.ProcessMessage event messages)", "key manager = spy around the spec test signer (deliberately without slashing protection)", "clock (synctest bubble, fixed instant)", "runner wiring of operator/validator.SetupRunners re-implemented (30 lines) to insert the stubs"}

var Specs = map[string]*sim.Spec{
	"C03": {Sim: "runnersim", GenConfig: genConfig("C03"), Run: runProp("C03"), Real: realList, Stub: stubList,
		Rule:        "4 (7) operators, each a real Validator with real runners; steps: start duty (current / next / past slot, any of 5 consensus roles, operators at different moments), deliver any pending pre-consensus / consensus / post-consensus message in any order, duplicates and late redelivery (incl. finished duties, other heights), messages re-addressed to another role or another validator, timeouts, simulator-assembled decided messages for past / current / future heights with quorum or sub-quorum signer sets, corrupted partial signatures. Oracle on EVERY SignBeaconObject call and every partial-signature broadcast. Non-trivial: >= 2 signing calls and >= 15 steps; distinct = hash of (actor, step, per-operator per-role (instance decided, value set, finished)).",
		Assumptions: []string{"certification of a decision is tracked by the simulator from valid commit / decided messages delivered to the operator (an over-approximation: messages the instance rejected still count)", "validator-registration and voluntary-exit duties are not started (any signature in their domains is reported)"}},
	"C05": {Sim: "runnersim", GenConfig: genConfig("C05"), Run: runProp("C05"), Real: realList, Stub: stubList,
		Rule:        "committees of 4/7/10/13; consensus mostly flushed on the honest path, the schedule is spent on the pre- and post-consensus partial-signature phases: every arrival order, <= f senders whose messages are replaced by garbage / wrong-root / signed-with-another-key / truncated signatures (also one bad root among good ones in multi-root duties), good-then-bad and bad-then-good from one sender, duplicates. Oracle at every BeaconNode.Submit* and at every reconstructed pre-consensus signature handed to the beacon node: verifies under the validator public key (herumi), is the object of the operator's decided value, not submitted before; liveness after all deliveries: >= 2f+1 correct partial signatures received (after the operator produced its own) => submitted.",
		Assumptions: []string{"at most f committee members send wrong partial signatures", "liveness is judged at message granularity for multi-root duties"}},
}

var _ = spectypes.BNRoleAttester
