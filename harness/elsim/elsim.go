// Package elsim: C13 — every finalized-enough block's events are delivered once, in order.
//
// Regime B (testing/synctest bubble, one external event at a time). Real: executionclient.New /
// FetchHistoricalLogs / fetchLogsInBatches / StreamLogs / streamLogsToChan / reconnect / PackLogs,
// eventsyncer.SyncHistory / SyncOngoing, go-ethereum ethclient + rpc client (and rpc.Server as the
// transport of the stub). Stub: the execution node (fake "eth" service backed by a generated chain,
// served over net.Pipe, handed to the client through the build-tag hook executionclient.VerifDial),
// the event handler (a collector recording every BlockLogs it is handed), the clock.
package elsim

import (
	"context"
	"errors"
	"fmt"
	"os"
	"runtime"
	"sort"
	"strings"
	"sync"
	"testing"
	"testing/synctest"
	"time"

	ethcommon "github.com/ethereum/go-ethereum/common"
	"go.uber.org/zap"
	"go.uber.org/zap/zapcore"

	ethtypes "github.com/ethereum/go-ethereum/core/types"

	"github.com/bloxapp/ssv/eth/eventsyncer"
	"github.com/bloxapp/ssv/eth/executionclient"

	"verifharness/sim"
)

// ---------------------------------------------------------------------------------------------
// bookkeeping types

// invocation = one FetchHistoricalLogs call (stream=false) or one streamLogsToChan call
// (stream=true, identified by its eth_subscribe request).
type invocation struct {
	id, session int
	stream      bool
	subscribed  bool
	getLogsReq  int
	getLogsOK   int
	firstFrom   uint64 // fromBlock of the first eth_getLogs (diagnostics only)
	entries     int    // BlockLogs handed to the handler during this invocation
	end         string // "" while running; fault class that ended it
	dialsAtEnd  int    // number of dials when the fault was recorded
	endApplied  bool
}

func (inv *invocation) label() (class, path string) {
	switch inv.end {
	case "subscribe-error":
		return inv.end, "at-subscribe"
	case "subscription-error":
		if inv.getLogsOK > 0 {
			return inv.end, "idle-after-fetch"
		}
		return inv.end, "idle-before-first-fetch"
	case "fetch-error":
		if !inv.stream {
			return inv.end, "historical"
		}
		if inv.entries == 0 {
			return inv.end, "before-first-delivery"
		}
		return inv.end, "after-delivery"
	case "blocknumber-error":
		return inv.end, "historical"
	}
	return inv.end, "-"
}

type entry struct {
	inv   int
	block uint64
	logs  []lkey // judged content, computed when the handler processed the entry
	// recv is the very BlockLogs value the handler was handed: its Logs slice is kept BY REFERENCE and
	// read again at every later quiescence and at the end of the run (an entry must not change after it
	// was handed over). snap is a deep copy made at processing time, used only to render messages.
	recv    executionclient.BlockLogs
	snap    []ethtypes.Log
	mutated bool
}

// lkey identifies a delivered log by everything the statement talks about.
type lkey struct {
	block   uint64
	tx, idx uint
	removed bool
	foreign bool
	known   bool // address and payload are those the chain holds for (block, idx)
}

type session struct {
	id      int
	from    uint64
	ctx     context.Context
	cancel  context.CancelFunc
	ec      *executionclient.ExecutionClient
	ended   bool
	how     string // why the session ended
	gaveUp  string // message of the intercepted Fatal/Panic
	closing bool
	// slow consumer: in lag mode the handler takes an entry from the channel and then waits for a token
	// of the driver (consume step) before it reads it; gate closed = no lag (any more)
	gate        chan struct{}
	gateOpen    bool // still lagging (gate not closed)
	waiting     bool // the handler holds an entry and waits for a token
	historyDone bool
}

type world struct {
	d  *sim.D
	t0 time.Time

	mu    sync.Mutex
	chain *chain
	conns []*conn

	// fault arming (absolute counters)
	reqCount, dropAt          int
	getLogsCount              int
	failGetLogsAt             int
	failSubscribe             int
	refuseDials               int
	dialCount                 int
	reqLog                    []string
	parked                    []parkedDrop
	fired                     []string
	zapCounts                 map[string]int64
	maxHeadTold, lastAnnounce uint64
	headTold                  bool

	invs    []*invocation
	entries []entry
	sess    []*session

	// oracle state (driver goroutine only)
	fd, batch, start0 uint64
	lagMode, noLag    bool
	mineRun           int // generator only: remaining steps of a run of consecutive mine steps
	logBatches        int // eth_getLogs replies with logs since the last quiescence
	started           bool
	judged            int
	hwm               uint64
	any               bool
	delivered         map[uint64]int
	acked             map[uint64]bool
	pending           []string // labels of invocation-ending faults since the last clean entry
	pendingInv        int      // invocations [0,pendingInv) have had their end applied
	episode           string   // attribution of the running replay episode ("" = none)
	nonEmpty          int
	announced         int
	endFaults         int
}

// ---------------------------------------------------------------------------------------------
// invocation tracking (callers hold w.mu)

func (w *world) beginInvocation(stream bool) *invocation {
	sid := -1
	if len(w.sess) > 0 {
		sid = w.sess[len(w.sess)-1].id
	}
	inv := &invocation{id: len(w.invs), session: sid, stream: stream}
	w.invs = append(w.invs, inv)
	return inv
}

func (w *world) curInvocation() *invocation {
	if len(w.invs) == 0 {
		return nil
	}
	return w.invs[len(w.invs)-1]
}

// endInvocation records which fault ended the current invocation.
func (w *world) endInvocation(method string, _ bool) {
	inv := w.curInvocation()
	if inv == nil || inv.end != "" {
		return
	}
	inv.dialsAtEnd = w.dialCount
	switch method {
	case "eth_getLogs":
		inv.end = "fetch-error"
	case "eth_subscribe":
		inv.end = "subscribe-error"
	case "eth_blockNumber":
		inv.end = "blocknumber-error"
	case "idle-drop":
		inv.end = "subscription-error"
	}
}

// ---------------------------------------------------------------------------------------------
// zap core: counts warnings, turns Fatal / Panic ("client gives up by design") into the end of the
// calling goroutine (deferred close(logs) runs), never into a process exit.

type simCore struct {
	w *world
	s *session
}

func (c simCore) Enabled(l zapcore.Level) bool      { return l >= zapcore.WarnLevel }
func (c simCore) With([]zapcore.Field) zapcore.Core { return c }
func (c simCore) Sync() error                       { return nil }
func (c simCore) Check(e zapcore.Entry, ce *zapcore.CheckedEntry) *zapcore.CheckedEntry {
	if c.Enabled(e.Level) {
		return ce.AddCore(e, c)
	}
	return ce
}
func (c simCore) Write(e zapcore.Entry, _ []zapcore.Field) error {
	c.w.mu.Lock()
	if c.s.closing { // the simulator is stopping this session: nothing it says is part of the run
		c.w.mu.Unlock()
		if e.Level >= zapcore.DPanicLevel {
			runtime.Goexit()
		}
		return nil
	}
	c.w.zapCounts["client-log-"+e.Level.String()+":"+strings.ReplaceAll(e.Message, " ", "-")]++
	giveUp := e.Level >= zapcore.DPanicLevel
	if giveUp && c.s.gaveUp == "" {
		c.s.gaveUp = e.Level.String() + ": " + e.Message
	}
	c.w.mu.Unlock()
	if giveUp {
		runtime.Goexit()
	}
	return nil
}

// ---------------------------------------------------------------------------------------------
// the stub event handler = the collector

type collector struct {
	w *world
	s *session
}

// keysOf renders delivered logs as the oracle sees them (caller holds w.mu).
func (w *world) keysOf(logs []ethtypes.Log) []lkey {
	var out []lkey
	for _, l := range logs {
		k := lkey{block: l.BlockNumber, tx: l.TxIndex, idx: l.Index, removed: l.Removed, foreign: l.Address != contractAddr}
		if b := w.chain.blocks[l.BlockNumber]; b != nil && int(l.Index) < len(b.logs) {
			ref := w.chain.ethLog(b, b.logs[l.Index])
			k.known = ref.Address == l.Address && string(ref.Data) == string(l.Data) && ref.TxIndex == l.TxIndex &&
				ref.TxHash == l.TxHash && ref.BlockHash == l.BlockHash && len(l.Topics) == 1 && l.Topics[0] == eventTopic
			if b.logs[l.Index].removed {
				k.removed = true
			}
		}
		out = append(out, k)
	}
	return out
}

func deepCopyLogs(logs []ethtypes.Log) []ethtypes.Log {
	out := make([]ethtypes.Log, len(logs))
	for i, l := range logs {
		out[i] = l
		out[i].Topics = append([]ethcommon.Hash(nil), l.Topics...)
		out[i].Data = append([]byte(nil), l.Data...)
	}
	return out
}

func sameLog(a, b ethtypes.Log) bool {
	if a.Address != b.Address || a.BlockNumber != b.BlockNumber || a.TxHash != b.TxHash || a.TxIndex != b.TxIndex ||
		a.BlockHash != b.BlockHash || a.Index != b.Index || a.Removed != b.Removed || string(a.Data) != string(b.Data) || len(a.Topics) != len(b.Topics) {
		return false
	}
	for i := range a.Topics {
		if a.Topics[i] != b.Topics[i] {
			return false
		}
	}
	return true
}

func (c collector) HandleBlockEventsStream(logs <-chan executionclient.BlockLogs, executeTasks bool) (uint64, error) {
	var last uint64
	w, s := c.w, c.s
	for bl := range logs { // the entry is now in the handler's hands
		w.mu.Lock()
		lag := s.gateOpen
		s.waiting = lag
		w.mu.Unlock()
		if lag {
			<-s.gate // a token of the driver, or the gate was closed (no lag any more / process exit)
		}
		w.mu.Lock()
		s.waiting = false
		if s.closing { // the process exited before it finished this entry: nothing was processed
			w.mu.Unlock()
			continue
		}
		inv := w.curInvocation()
		e := entry{inv: inv.id, block: bl.BlockNumber, recv: bl, snap: deepCopyLogs(bl.Logs)}
		e.logs = w.keysOf(bl.Logs)
		inv.entries++
		w.entries = append(w.entries, e)
		w.mu.Unlock()
		last = bl.BlockNumber
	}
	return last, nil
}

// ---------------------------------------------------------------------------------------------
// sessions: what cli/operator/node.go does around the syncer (from = last processed block + 1)

func (w *world) liveSession() *session {
	if len(w.sess) == 0 {
		return nil
	}
	s := w.sess[len(w.sess)-1]
	if s.ended {
		return nil
	}
	return s
}

func (w *world) boot() {
	from := w.start0
	if w.any {
		from = w.hwm + 1
	}
	w.started = true
	ctx, cancel := context.WithCancel(context.Background())
	w.mu.Lock()
	s := &session{id: len(w.sess), from: from, ctx: ctx, cancel: cancel, gate: make(chan struct{}, 1<<16), gateOpen: true}
	if !w.lagMode || w.noLag {
		w.closeGate(s)
	}
	w.sess = append(w.sess, s)
	w.beginInvocation(false)
	w.mu.Unlock()
	w.d.Logf("boot session=%d from=%d batch=%d fd=%d", s.id, from, w.batch, w.fd)
	logger := zap.New(simCore{w: w, s: s}, zap.WithFatalHook(zapcore.WriteThenGoexit))
	end := func(how string) {
		w.mu.Lock()
		s.ended, s.how = true, how
		w.mu.Unlock()
	}
	go func() {
		ec, err := executionclient.New(ctx, "sim://node", contractAddr,
			executionclient.WithLogger(logger),
			executionclient.WithLogBatchSize(w.batch),
			executionclient.WithFollowDistance(w.fd))
		if err != nil {
			end("connect-failed")
			return
		}
		w.mu.Lock()
		s.ec = ec
		w.mu.Unlock()
		syncer := eventsyncer.New(nil, ec, collector{w, s})
		last, err := syncer.SyncHistory(ctx, from)
		next := from
		switch {
		case errors.Is(err, executionclient.ErrNothingToSync):
			w.mu.Lock()
			w.zapCounts["history-nothing-to-sync"]++
			w.mu.Unlock()
		case err == nil:
			next = last + 1
		default:
			end("history-sync-failed")
			return
		}
		w.mu.Lock()
		s.historyDone = true
		w.mu.Unlock()
		_ = syncer.SyncOngoing(ctx, next)
		end("stream-ended")
	}()
}

// closeGate ends the lag of a session's handler for good (caller holds w.mu).
func (w *world) closeGate(s *session) {
	if s.gateOpen {
		s.gateOpen = false
		close(s.gate)
	}
}

// consume lets the lagging handler process k more entries (now or when they arrive).
func (w *world) consume(k int) {
	w.mu.Lock()
	defer w.mu.Unlock()
	s := (*session)(nil)
	if len(w.sess) > 0 && !w.sess[len(w.sess)-1].ended {
		s = w.sess[len(w.sess)-1]
	}
	if s == nil || !s.gateOpen {
		w.d.Logf("consume %d: handler does not lag, no-op", k)
		return
	}
	w.d.Logf("consume %d (handler holds an entry: %v)", k, s.waiting)
	for i := 0; i < k; i++ {
		select {
		case s.gate <- struct{}{}:
		default:
		}
	}
}

// kill stops the live session (process exit of the node) and waits, in fake time, until all its
// goroutines are gone.
func (w *world) kill() {
	w.mu.Lock()
	var live []*session
	for _, s := range w.sess {
		if !s.ended {
			s.closing = true
			w.closeGate(s) // whatever the handler still holds or would receive dies with the process
			live = append(live, s)
		}
	}
	w.mu.Unlock()
	// Only the context is cancelled (ExecutionClient.Close would make several select cases ready at
	// once): an idle streamLogsToChan returns context.Canceled; a client inside its reconnect loop
	// runs the rest of the back-off schedule on the fake clock and then hits its Panic (intercepted).
	// A lagging handler leaves the client busy (forwarder blocked on the logs channel, heads queued in
	// the subscription): cancelling now would make two select cases ready at once (next head / ctx.Done),
	// a choice no seed controls. The handler has stopped processing (closing: entries are discarded, the
	// last processed block stays what it was); the client first runs to its idle point, then is cancelled.
	w.quiesce()
	for _, s := range live {
		s.cancel()
	}
	for i := 0; i < 12; i++ {
		synctest.Wait()
		w.mu.Lock()
		all := true
		for _, s := range live {
			all = all && s.ended
		}
		w.mu.Unlock()
		if all {
			break
		}
		time.Sleep(time.Second << uint(i))
	}
	// the connections of the exited process go away
	w.mu.Lock()
	for _, c := range w.conns {
		if !c.dropped {
			c.dropped, c.subLive = true, false
			_ = c.srv.Close()
		}
	}
	w.mu.Unlock()
	synctest.Wait()
}

func (w *world) teardown() {
	w.kill()
	w.mu.Lock()
	conns := append([]*conn(nil), w.conns...)
	w.mu.Unlock()
	for _, c := range conns {
		_ = c.cli.Close()
		_ = c.srv.Close()
	}
	synctest.Wait()
	for _, c := range conns {
		c.rpcc.Close()
		c.server.Stop()
	}
	synctest.Wait()
}

// clientState: what an outside observer can tell about the client at quiescence.
func (w *world) clientState() string {
	w.mu.Lock()
	defer w.mu.Unlock()
	if len(w.sess) == 0 {
		return "not-started"
	}
	s := w.sess[len(w.sess)-1]
	if s.ended {
		if s.gaveUp != "" {
			return "gave-up"
		}
		return s.how
	}
	if c := w.liveConn(); c != nil && c.subLive {
		return "subscribed"
	}
	if !s.historyDone && s.ec != nil {
		return "syncing" // inside SyncHistory (only observable at quiescence while the handler lags)
	}
	return "reconnecting"
}

// lagging: the handler of the live session holds an entry and waits for the driver.
func (w *world) lagging() bool {
	w.mu.Lock()
	defer w.mu.Unlock()
	if len(w.sess) == 0 {
		return false
	}
	s := w.sess[len(w.sess)-1]
	return !s.ended && s.waiting
}

// ---------------------------------------------------------------------------------------------
// run

var dumpSeq int

func run(t *testing.T, d *sim.D) {
	synctest.Test(t, func(t *testing.T) {
		w := &world{d: d, t0: time.Now(), chain: newChain(), zapCounts: map[string]int64{},
			delivered: map[uint64]int{}, acked: map[uint64]bool{}}
		w.fd = uint64(d.Cfg.Get("fd", 0)) % 9
		w.batch = uint64(d.Cfg.Get("batch", 1))
		if w.batch < 1 {
			w.batch = 1
		}
		if w.batch > 5000 {
			w.batch = 5000
		}
		w.lagMode = d.Cfg.Get("lag", 0) == 1
		w.start0 = uint64(d.Cfg.Get("start", 1))
		if w.start0 < 1 { // the node starts at the registry deployment block or at last processed + 1, never at 0
			w.start0 = 1
		}
		if dump := os.Getenv("ELSIM_DUMP"); dump != "" { // debugging aid: write the event log of every run
			d.KeepLog = true
			defer func() {
				dumpSeq++
				_ = os.WriteFile(fmt.Sprintf("%s.%d.%d", dump, d.Seed, dumpSeq), []byte(strings.Join(d.Lines, "\n")+"\n"), 0o644)
			}()
		}
		executionclient.VerifDial = w.dial
		defer func() { executionclient.VerifDial = nil }()
		defer w.teardown()
		d.Logf("config batch=%d fd=%d start=%d lag=%v", w.batch, w.fd, w.start0, w.lagMode)
		for {
			st, ok := d.Next(func(r *sim.Rand) *sim.Step { return w.gen(r) })
			if !ok {
				break
			}
			w.exec(st)
			w.settle(st.Op)
		}
		w.finale()
		w.recheck("end of run")
		d.SimTime = time.Since(w.t0)
		d.Nontriv = w.nonEmpty >= 2 && w.announced >= 1
	})
}

func (w *world) exec(st sim.Step) {
	d := w.d
	switch st.Op {
	case "mine":
		w.mu.Lock()
		gap := uint64(st.Arg(0)) % 400
		b := w.chain.mine(gap, int(uint64(st.Arg(1))%7), int(uint64(st.Arg(2))%24), uint64(st.Arg(3)), uint64(st.Arg(4)),
			1+int(uint64(st.Arg(5))%3), int(uint64(st.Arg(6))%5))
		nexp := len(w.chain.expected(b.num))
		w.mu.Unlock()
		d.Logf("mine gap=%d block=%d logs=%d expected=%d", gap, b.num, len(b.logs), nexp)
	case "boot":
		if w.liveSession() == nil {
			w.boot()
		} else {
			d.Logf("boot: session alive, no-op")
		}
	case "restart":
		d.Logf("restart")
		w.kill()
		w.judge()
		w.boot()
	case "announce":
		w.announce(uint64(st.Arg(0))%4, st.Arg(1)%2 == 1)
	case "drop_idle":
		w.mu.Lock()
		c := w.liveConn()
		if c == nil {
			w.mu.Unlock()
			d.Logf("drop_idle: no live connection, no-op")
			break
		}
		sub := c.subLive
		c.dropped, c.subLive = true, false
		if sub {
			w.endInvocation("idle-drop", true)
			w.fired = append(w.fired, "conn-drop-idle-subscribed")
		} else {
			w.fired = append(w.fired, "conn-drop-idle-unsubscribed")
		}
		_ = c.srv.Close()
		w.mu.Unlock()
		d.Logf("drop_idle: connection c%d closed by the node (subscribed=%v)", c.id, sub)
	case "arm_drop":
		k := 1 + int(uint64(st.Arg(0))%8)
		w.mu.Lock()
		w.dropAt = w.reqCount + k
		w.mu.Unlock()
		d.Logf("arm_drop: request +%d will be answered by closing the connection", k)
	case "arm_getlogs_fail":
		k := 1 + int(uint64(st.Arg(0))%6)
		w.mu.Lock()
		w.failGetLogsAt = w.getLogsCount + k
		w.mu.Unlock()
		d.Logf("arm_getlogs_fail: eth_getLogs +%d will get an error reply", k)
	case "arm_sub_fail":
		n := 1 + int(uint64(st.Arg(0))%3)
		w.mu.Lock()
		w.failSubscribe = n
		w.mu.Unlock()
		d.Logf("arm_sub_fail: next %d eth_subscribe get an error reply", n)
	case "refuse_dials":
		n := 1 + int(uint64(st.Arg(0))%8)
		w.mu.Lock()
		w.refuseDials = n
		w.mu.Unlock()
		d.Logf("refuse_dials: next %d dials are refused", n)
	case "consume":
		k := 1 + int(uint64(st.Arg(0))%1000)
		w.consume(k)
	case "advance":
		ms := uint64(st.Arg(0)) % 200_000
		time.Sleep(time.Duration(ms) * time.Millisecond)
		d.Logf("advance %dms", ms)
	default:
		d.Logf("unknown op %q ignored", st.Op)
	}
}

// announce sends newHeads notifications on the live subscription. back: announce tip-back (never
// below the last announced head: heads are monotone, possibly repeated); burst: one notification for
// every number from the last announced head up to the tip, back to back.
func (w *world) announce(back uint64, burst bool) {
	d := w.d
	w.mu.Lock()
	c := w.liveConn()
	if c == nil || !c.subLive {
		w.mu.Unlock()
		d.Logf("announce: no live subscription, nothing sent")
		return
	}
	var heads []uint64
	tip := w.chain.tip
	if burst && tip > w.lastAnnounce {
		lo := w.lastAnnounce + 1
		if tip-lo > 40 {
			lo = tip - 40
		}
		for h := lo; h <= tip; h++ {
			heads = append(heads, h)
		}
	} else {
		h := uint64(0)
		if tip > back {
			h = tip - back
		}
		if h < w.lastAnnounce {
			h = w.lastAnnounce
		}
		heads = []uint64{h}
	}
	notifier, id := c.notifier, c.sub.ID
	for _, h := range heads {
		if h > w.maxHeadTold {
			w.maxHeadTold = h
		}
		w.headTold = true
	}
	if heads[len(heads)-1] == w.lastAnnounce {
		d.Probe("head-repeated")
	} else if heads[0] > w.lastAnnounce+1 {
		d.Probe("head-skips-numbers")
	}
	w.lastAnnounce = heads[len(heads)-1]
	w.announced += len(heads)
	w.mu.Unlock()
	if len(heads) > 1 {
		d.Probe("head-burst")
	}
	d.Logf("announce heads=%v on c%d", heads, c.id)
	for _, h := range heads {
		_ = notifier.Notify(id, w.chain.header(h)) // result not logged: racy against the client's unsubscribe inside a burst
	}
}

// settle: wait for quiescence, flush the records made by other goroutines in canonical order, judge.
func (w *world) settle(op string) {
	w.quiesce()
	d := w.d
	w.mu.Lock()
	reqs, fired := w.reqLog, w.fired
	w.reqLog, w.fired = nil, nil
	zc := w.zapCounts
	w.zapCounts = map[string]int64{}
	w.mu.Unlock()
	for _, l := range reqs {
		d.Logf("  node: %s", l)
	}
	for _, f := range fired {
		d.Fault(f)
	}
	keys := make([]string, 0, len(zc))
	for k := range zc {
		keys = append(keys, k)
	}
	sort.Strings(keys)
	for _, k := range keys {
		for i := int64(0); i < zc[k]; i++ {
			d.Probe(k)
		}
		d.Logf("  client: %s x%d", k, zc[k])
	}
	w.judge()
	w.recheck("quiescence after " + op)
	cs := w.clientState()
	if w.lagging() {
		cs += "+lag"
		d.Probe("handler-lagging")
	}
	w.mu.Lock()
	if w.logBatches >= 2 {
		d.Probe("round-with-2+-log-batches")
	}
	w.logBatches = 0
	armed := 0
	if w.dropAt != 0 {
		armed |= 1
	}
	if w.failGetLogsAt != 0 {
		armed |= 2
	}
	if w.failSubscribe != 0 {
		armed |= 4
	}
	if w.refuseDials != 0 {
		armed |= 8
	}
	lag := len(w.chain.logBlocksIn(w.hwm+1, w.chain.tip))
	if lag > 3 {
		lag = 3
	}
	unann := w.chain.tip - w.lastAnnounce
	if w.chain.tip < w.lastAnnounce {
		unann = 0
	}
	if unann > 3 {
		unann = 3
	}
	lastEnd := ""
	if inv := w.curInvocation(); inv != nil {
		c, p := inv.label()
		lastEnd = c + "/" + p
	}
	w.mu.Unlock()
	abs := fmt.Sprintf("%s|lag%d|un%d|arm%x|%s|pend%d", cs, lag, unann, armed, lastEnd, len(w.pending))
	d.Logf("  state %s hwm=%d tip=%d t=+%v", abs, w.hwm, w.chain.tip, time.Since(w.t0))
	d.State("el", op, abs)
	if cs == "gave-up" {
		d.Probe("client-gave-up")
	}
}

// finale: bounded liveness. Faults stop, the node (re)starts if it had exited, the client is given
// three full reconnect cycles of fake time to be subscribed again, one more log-carrying block is
// mined and a head far enough beyond it is announced: the history must then be complete.
func (w *world) finale() {
	d := w.d
	if d.V != nil || !w.started {
		return
	}
	w.mu.Lock()
	w.dropAt, w.failGetLogsAt, w.failSubscribe, w.refuseDials = 0, 0, 0, 0
	w.noLag = true
	if len(w.sess) > 0 {
		w.closeGate(w.sess[len(w.sess)-1])
	}
	w.mu.Unlock()
	d.Logf("finale: faults disarmed, handler no longer lags")
	w.settle("finale-drain")
	const cycle = 130 * time.Second // 1+2+4+...+64 s = the whole back-off schedule
	for attempt := 0; attempt < 2; attempt++ {
		for i := 0; i < 3 && w.clientState() == "reconnecting"; i++ {
			time.Sleep(cycle)
			w.settle("finale-wait")
		}
		cs := w.clientState()
		if cs == "subscribed" {
			break
		}
		if cs == "reconnecting" {
			if os.Getenv("ELSIM_STACKS") != "" {
				buf := make([]byte, 1<<20)
				fmt.Println(string(buf[:runtime.Stack(buf, true)]))
			}
			w.finding("not-resubscribed-after-recovery", "no fault for %v of fake time and the client has no subscription", 3*cycle)
			return
		}
		if attempt == 1 {
			if cs == "gave-up" {
				d.Probe("gave-up-without-fault-after-restart")
			}
			w.finding("session-ended-without-fault-"+cs, "a freshly started node ended (%s) although no fault was injected", cs)
			return
		}
		d.Logf("finale: node process restarts (was %s)", cs)
		w.kill()
		w.judge()
		w.boot()
		w.settle("finale-boot")
	}
	w.mu.Lock()
	w.chain.mine(0, 1, 0, 0, 0, 1, 0)
	target := w.chain.tip
	w.chain.mine(w.fd, 0, 0, 0, 0, 1, 0)
	w.mu.Unlock()
	d.Logf("finale: mined log block %d and %d more; announcing tip %d", target, w.fd+1, w.chain.tip)
	w.announce(0, false)
	w.settle("finale-announce")
	if w.clientState() != "subscribed" {
		w.finding("lost-subscription-without-fault", "client is %s after a fault-free head", w.clientState())
		return
	}
	var missing []uint64
	w.mu.Lock()
	for _, b := range w.chain.logBlocksIn(w.start0, target) {
		if w.delivered[b] == 0 && !w.acked[b] {
			missing = append(missing, b)
		}
	}
	w.mu.Unlock()
	if len(missing) > 0 {
		// statement-level this is the same failure as a gap revealed by a later entry: a block in range
		// that emitted contract logs has no entry (here: and never will, nothing is in flight)
		w.findingIn("finale", "block-skipped", "after recovery, head %d announced fault-free (follow distance %d) and quiescence, block(s) %v in [%d,%d] carry contract logs and were never handed over",
			w.chain.tip, w.fd, missing, w.start0, target)
	} else {
		d.Probe("finale-complete")
	}
}

// ---------------------------------------------------------------------------------------------

var Specs = map[string]*sim.Spec{
	"C13": {
		Sim: "elsim", GenConfig: genConfig, Run: run,
		Real: []string{
			"eth/executionclient: New, connect, reconnect (tasks.ExecWithInterval back-off on the fake clock), FetchHistoricalLogs, fetchLogsInBatches, StreamLogs, streamLogsToChan, PackLogs, options",
			"eth/eventsyncer: EventSyncer.SyncHistory, SyncOngoing",
			"go-ethereum v1.13.5 ethclient.Client + rpc.Client (JSON codec, subscriptions, dispatch loop)",
		},
		Stub: []string{
			"execution node: go-ethereum rpc.Server with a fake eth service (eth_blockNumber, eth_getLogs, eth_subscribe newHeads, eth_chainId, eth_syncing) over net.Pipe, installed through executionclient.VerifDial (build tag verif)",
			"chain: generated blocks (logs per block / per transaction, Removed flags, logs of a foreign contract)",
			"event handler: collector recording every BlockLogs by reference (returns the last block number like the real handler); optionally a slow consumer driven by consume steps",
			"node start-up glue of cli/operator/node.go (from = last processed block + 1; restart after exit)",
			"clock: testing/synctest fake clock; zap core turning Fatal/Panic into goroutine exit",
		},
		Rule:        "seeded programs of mine (single or runs of 2-7 close log-bearing blocks) / boot / announce (single, repeated, skipping, burst) / consume (slow handler: in half of the runs the handler takes an entry and reads it only when a consume step grants a token, so entries sit in the channel buffer and in the handler while later batches are fetched) / drop_idle / arm_drop (k-th request) / arm_getlogs_fail (k-th) / arm_sub_fail / refuse_dials / advance / restart, followed by a fault-free finale (bounded liveness); every entry is judged when the handler processes it and read again, through the very slice it was handed, at every later quiescence and at the end of the run; batch size 1-5000 (small sizes over-weighted), follow distance 0-8, start block 1-40. Non-trivial = at least 2 non-empty BlockLogs delivered and at least 1 head announced; distinct = hash of the sequence of (op, client state incl. handler lag, undelivered log blocks capped 3, unannounced blocks capped 3, armed faults, how the current invocation ended, pending faults).",
		Assumptions: []string{"a connection dropped instead of a reply is closed once the client has finished sending the request and waits for the reply (the go-ethereum rpc.Client race between a read error and the reqSent notification of the request in flight is not explored: it depends on goroutine scheduling, no seed controls it)", "the node answers eth_getLogs with logs in canonical (block, tx index, log index) order and honours the address filter", "heads are announced in non-decreasing order (no reorganisations)", "one external event at a time: every injected event is followed by quiescence of all goroutines before the next"},
	},
}
