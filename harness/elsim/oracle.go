package elsim

import (
	"fmt"
)

// The oracle works on the recorded history only (the BlockLogs handed to the event handler) and on
// what the node was asked to serve / announce. It says what the statement of C13 says:
//
//	strictly-increasing   block numbers of successive entries strictly increase
//	every-block-delivered every block in [start, head told - follow distance] with non-removed contract
//	                      logs has its entry (detected as soon as a later entry arrives, and at the end)
//	exact-logs-in-order   an entry carries exactly the block's non-removed contract logs in (tx, index) order
//	within-range          no entry below the requested start or beyond head told - follow distance
//	bounded-liveness      after faults stop and one more head is announced the history is complete
//
// Each failure is a sim.Finding (the oracle contains it: the offending entry is ignored or the gap
// acknowledged, and checking continues) with signature <what>/<fault class>/<code path>, where the
// fault is the one that ended the preceding FetchHistoricalLogs / streamLogsToChan invocation.
// The request cursor of the client is mechanism, not statement: it is logged, never judged.

var invariantOf = map[string]string{
	"block-skipped":                   "every-block-delivered",
	"block-redelivered":               "strictly-increasing",
	"block-out-of-order":              "strictly-increasing",
	"block-before-start":              "within-range",
	"block-beyond-follow-distance":    "within-range",
	"removed-log-delivered":           "exact-logs-in-order",
	"foreign-log-delivered":           "exact-logs-in-order",
	"unknown-log-delivered":           "exact-logs-in-order",
	"logs-of-other-block":             "exact-logs-in-order",
	"logs-out-of-order":               "exact-logs-in-order",
	"logs-duplicated":                 "exact-logs-in-order",
	"logs-missing":                    "exact-logs-in-order",
	"logs-unexpected":                 "exact-logs-in-order",
	"not-resubscribed-after-recovery": "bounded-liveness",
	"lost-subscription-without-fault": "bounded-liveness",
}

func (w *world) attribution(phase string) string {
	if w.episode != "" {
		return w.episode
	}
	distinct := map[string]bool{}
	for _, p := range w.pending {
		distinct[p] = true
	}
	switch len(distinct) {
	case 0:
		return "no-fault/" + phase
	case 1:
		return w.pending[0]
	}
	return "multiple-faults/mixed"
}

// cursorKinds: failures whose cause is where the client resumed; their signature names the fault that
// ended the preceding invocation and the code path. All other kinds (content of an entry, state of
// the node process) do not depend on which fault came before: their signature only says whether any
// fault was pending, and the phase.
var cursorKinds = map[string]bool{"block-skipped": true, "block-redelivered": true, "block-out-of-order": true,
	"block-before-start": true, "block-beyond-follow-distance": true, "not-resubscribed-after-recovery": true}

func (w *world) findingIn(phase, what, format string, a ...any) {
	inv := invariantOf[what]
	if inv == "" {
		inv = "bounded-liveness"
	}
	sig := what + "/" + w.attribution(phase)
	if !cursorKinds[what] {
		sig = what + "/no-fault/" + phase
		if phase != "finale" && (len(w.pending) > 0 || w.episode != "") {
			sig = what + "/after-fault/" + phase
		}
	}
	w.d.Finding(inv, sig, format, a...)
}

func (w *world) finding(what, format string, a ...any) { w.findingIn("finale", what, format, a...) }

// applyEnds moves the ending faults of invocations with id < upto into the pending list.
func (w *world) applyEnds(upto int) {
	for w.pendingInv < upto && w.pendingInv < len(w.invs) {
		inv := w.invs[w.pendingInv]
		if inv.end == "" {
			if inv.id == len(w.invs)-1 {
				return // still running
			}
		} else if !inv.endApplied {
			// the fault is recorded when the node serves the request; the invocation is over (all its entries
			// handed to the possibly lagging handler) only once the client went on: a later invocation, a
			// dial after the fault, or the end of the session
			if inv.id == len(w.invs)-1 && w.dialCount == inv.dialsAtEnd && !w.sessionEnded(inv.session) {
				return
			}
			inv.endApplied = true
			c, p := inv.label()
			// labelling only (never judged): an earlier fault after which the client demonstrably resumed
			// at the right block (first eth_getLogs of this invocation starts right after the last entry)
			// is not the cause of what follows
			want := w.start0
			if w.any {
				want = w.hwm + 1
			}
			if len(w.pending) > 0 && inv.getLogsReq > 0 && inv.entries == 0 && inv.firstFrom == want {
				w.d.Logf("  (resumed at %d as expected: earlier faults %v exonerated)", want, w.pending)
				w.pending = nil
			}
			w.pending = append(w.pending, c+"/"+p)
			w.endFaults++
			w.d.Logf("  invocation %d (session %d, stream=%v, first getLogs from %d, %d getLogs ok, %d entries) ended by %s/%s",
				inv.id, inv.session, inv.stream, inv.firstFrom, inv.getLogsOK, inv.entries, c, p)
			w.d.Probe("ended-by-" + c + "/" + p)
		}
		w.pendingInv++
	}
}

func (w *world) sessionEnded(id int) bool {
	for _, s := range w.sess {
		if s.id == id {
			return s.ended
		}
	}
	return true
}

// recheck reads every entry again through the very slice the handler was handed (caller: driver, at
// quiescence). An entry that was correct (or judged) when processed and reads differently now has been
// changed after delivery: statement-level the handler was handed other logs than the block's.
func (w *world) recheck(when string) {
	w.mu.Lock()
	defer w.mu.Unlock()
	for i := range w.entries {
		e := &w.entries[i]
		if e.mutated {
			continue
		}
		now := e.recv.Logs
		same := len(now) == len(e.snap)
		for j := 0; same && j < len(now); j++ {
			same = sameLog(now[j], e.snap[j])
		}
		if same {
			continue
		}
		e.mutated = true
		phase := "historical"
		if w.invs[e.inv].stream {
			phase = "streaming"
		}
		w.d.Probe("entry-mutated")
		w.d.Finding("exact-logs-in-order", "entry-mutated-after-delivery/"+phase,
			"entry #%d for block %d was handed over with logs %s; at %s the same BlockLogs value reads %s",
			i, e.block, renderLogs(w.keysOf(e.snap)), when, renderLogs(w.keysOf(now)))
	}
}

func renderLogs(ks []lkey) string {
	s := "["
	for i, k := range ks {
		if i > 0 {
			s += " "
		}
		s += fmt.Sprintf("b%d/tx%d/i%d", k.block, k.tx, k.idx)
		if !k.known {
			s += "?"
		}
	}
	return s + "]"
}

func (w *world) judge() {
	w.mu.Lock()
	defer w.mu.Unlock()
	for w.judged < len(w.entries) {
		e := w.entries[w.judged]
		w.applyEnds(e.inv)
		w.judgeEntry(e)
		w.judged++
	}
	w.applyEnds(len(w.invs))
}

// A replay episode (entries at or below the high-water mark, all consequences of one wrong resume)
// lasts while the stream is still behind the high-water mark; once it has caught up, whatever goes
// wrong next has its own cause.
func (w *world) endEpisodeIfCaughtUp(block uint64) {
	mark := w.hwm
	if !w.any || w.start0-1 > mark {
		mark = w.start0 - 1
	}
	if block >= mark {
		w.episode = ""
		w.pending = nil
	}
}

func (w *world) judgeEntry(e entry) {
	d := w.d
	inv := w.invs[e.inv]
	phase := "historical"
	if inv.stream {
		phase = "streaming"
	}
	d.Logf("  entry session=%d inv=%d %s block=%d logs=%d", inv.session, inv.id, phase, e.block, len(e.logs))

	if e.block < w.start0 {
		if w.episode == "" {
			w.episode = w.attribution(phase)
		}
		w.findingIn(phase, "block-before-start", "entry for block %d (%d logs) although the requested start is %d", e.block, len(e.logs), w.start0)
		w.endEpisodeIfCaughtUp(e.block)
		return
	}
	if w.any && e.block <= w.hwm {
		if w.episode == "" {
			w.episode = w.attribution(phase)
		}
		what := "block-out-of-order"
		if w.delivered[e.block] > 0 {
			what = "block-redelivered"
		}
		w.findingIn(phase, what, "entry for block %d (%d logs) handed over after the entry for block %d (block %d was handed over %d time(s) before)",
			e.block, len(e.logs), w.hwm, e.block, w.delivered[e.block])
		d.Probe("entry-not-increasing")
		w.endEpisodeIfCaughtUp(e.block)
		return
	}
	w.episode = ""
	if !(w.headTold && w.maxHeadTold >= w.fd && e.block <= w.maxHeadTold-w.fd) {
		w.findingIn(phase, "block-beyond-follow-distance", "entry for block %d although the highest head the client was told is %d and the follow distance is %d",
			e.block, w.maxHeadTold, w.fd)
	}
	lo := w.start0
	if w.any {
		lo = w.hwm + 1
	}
	if e.block > 0 {
		var skipped []uint64
		for _, b := range w.chain.logBlocksIn(lo, e.block-1) {
			if !w.acked[b] && w.delivered[b] == 0 {
				skipped = append(skipped, b)
				w.acked[b] = true
			}
		}
		if len(skipped) > 0 {
			w.findingIn(phase, "block-skipped", "entry for block %d arrived but block(s) %v in [%d,%d) carry contract logs and were never handed over",
				e.block, skipped, lo, e.block)
		}
	}
	if what, text := compareLogs(e, w.chain.expected(e.block)); what != "" {
		w.findingIn(phase, what, "entry for block %d: %s", e.block, text)
	}
	w.delivered[e.block]++
	w.hwm, w.any = e.block, true
	w.pending = nil
	if len(e.logs) > 0 {
		w.nonEmpty++
		d.Probe("entry-with-logs")
		if len(e.logs) > 12 {
			d.Probe("entry-more-than-12-logs")
		}
	} else {
		d.Probe("entry-empty-marker")
	}
}

func compareLogs(e entry, exp []clog) (what, text string) {
	for _, l := range e.logs {
		switch {
		case l.block != e.block:
			return "logs-of-other-block", fmt.Sprintf("carries log %d of block %d", l.idx, l.block)
		case l.removed:
			return "removed-log-delivered", fmt.Sprintf("carries log %d which the node flagged Removed", l.idx)
		case l.foreign:
			return "foreign-log-delivered", fmt.Sprintf("carries log %d of another contract", l.idx)
		case !l.known:
			return "unknown-log-delivered", fmt.Sprintf("carries log (tx %d, index %d) that the chain does not hold", l.tx, l.idx)
		}
	}
	got := make([]uint, len(e.logs))
	for i, l := range e.logs {
		got[i] = l.idx
	}
	want := make([]uint, len(exp))
	for i, l := range exp {
		want[i] = l.idx
	}
	same := len(got) == len(want)
	for i := 0; same && i < len(got); i++ {
		same = got[i] == want[i]
	}
	if same {
		return "", ""
	}
	text = fmt.Sprintf("log indices delivered %v, the block's non-removed contract logs are %v", got, want)
	seen := map[uint]int{}
	for _, g := range got {
		seen[g]++
		if seen[g] > 1 {
			return "logs-duplicated", text
		}
	}
	inWant := map[uint]bool{}
	for _, x := range want {
		inWant[x] = true
	}
	for _, g := range got {
		if !inWant[g] {
			return "logs-unexpected", text
		}
	}
	if len(got) < len(want) {
		return "logs-missing", text
	}
	return "logs-out-of-order", text
}
