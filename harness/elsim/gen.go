package elsim

import "verifharness/sim"

// genConfig: swarm-style per-run parameters. Small batch sizes are over-weighted (batch boundaries
// are where the packing / cursor logic lives); the chains are short, so every batch size above the
// chain length behaves like 5000.
func genConfig(r *sim.Rand, tier string) sim.Config {
	c := sim.Config{}
	switch r.Weighted(22, 18, 30, 12, 18) {
	case 0:
		c["batch"] = 1
	case 1:
		c["batch"] = 2
	case 2:
		c["batch"] = int64(r.Range(3, 10))
	case 3:
		c["batch"] = int64(r.Range(11, 100))
	default:
		c["batch"] = int64(r.Range(101, 5000))
	}
	if r.Pct(30) {
		c["fd"] = 0
	} else {
		c["fd"] = int64(r.Range(0, 8))
	}
	switch r.Weighted(40, 35, 25) { // mostly inside the chain that exists at boot: the historical sync has work to do
	case 0:
		c["start"] = 1
	case 1:
		c["start"] = int64(r.Range(2, 8))
	default:
		c["start"] = int64(r.Range(9, 40))
	}
	c["prelude"] = int64(r.Range(0, 14))
	// slow consumer: the handler takes an entry and reads it only when the driver says so (consume steps)
	if r.Pct(50) {
		c["lag"] = 1
	} else {
		c["lag"] = 0
	}
	c["minerun"] = int64(r.Range(0, 45)) // percentage of mine steps that start a run of 2-7 consecutive mine steps
	maxSteps := 50
	if tier == "thorough" {
		maxSteps = 90
	}
	c["steps"] = int64(r.Range(18, maxSteps))
	for _, k := range []string{"en_drop_idle", "en_drop_req", "en_getlogs_fail", "en_sub_fail", "en_refuse", "en_restart", "en_removed", "en_foreign", "en_burst"} {
		if r.Pct(75) {
			c[k] = 1
		} else {
			c[k] = 0
		}
	}
	c["dense"] = int64(r.Range(30, 80)) // percentage of mined blocks that directly follow the previous one
	return c
}

var advanceChoices = []int64{1, 500, 999, 1000, 1001, 2000, 3000, 4000, 8000, 16000, 32000, 64000, 130000}

func (w *world) genMine(r *sim.Rand) *sim.Step {
	cfg := w.d.Cfg
	var gap int64
	switch {
	case r.Pct(cfg.Get("dense", 50)):
		gap = 0
	case r.Pct(60):
		gap = int64(r.Range(1, 3))
	case r.Pct(75):
		gap = int64(r.Range(4, 12))
	default:
		hi := 40 * int(w.batch)
		if hi > 300 {
			hi = 300
		}
		gap = int64(r.Range(13, 13+hi))
	}
	ntx := int64(r.Weighted(10, 40, 20, 12, 8, 5, 5))
	perTx := int64(r.Range(0, 3))
	if r.Pct(12) {
		perTx = int64(r.Range(4, 23))
	}
	var removed, foreign int64
	if cfg.Get("en_removed", 1) == 1 && r.Pct(25) {
		removed = int64(r.U64() & r.U64() & 0x3fffffffffffffff)
		if r.Pct(15) {
			removed = 0x3fffffffffffffff
		}
	}
	if cfg.Get("en_foreign", 1) == 1 && r.Pct(20) {
		foreign = int64(r.U64() & 0x3f)
	}
	if w.mineRun > 0 { // inside a run: log-bearing blocks close together, so that one round spans several batches with logs
		if gap > 2 {
			gap = int64(r.Intn(3))
		}
		if ntx == 0 {
			ntx = 1
		}
	}
	return &sim.Step{Op: "mine", A: []int64{gap, ntx, perTx, removed, foreign, int64(r.Intn(3)), int64(r.Intn(5))}}
}

// gen produces the next step online, looking at what an outside observer can see of the client.
func (w *world) gen(r *sim.Rand) *sim.Step {
	cfg := w.d.Cfg
	n := int64(len(w.d.Steps))
	if n >= cfg.Get("steps", 30) {
		return nil
	}
	prelude := cfg.Get("prelude", 3)
	if n < prelude {
		w.mineRun = 1
		return w.genMine(r)
	}
	if n == prelude {
		w.mineRun = 0
	}
	if w.mineRun > 0 && n > prelude {
		w.mineRun--
		return w.genMine(r)
	}
	if n == prelude {
		return &sim.Step{Op: "boot"}
	}
	on := func(k string, wgt int) int {
		if cfg.Get(k, 1) == 1 {
			return wgt
		}
		return 0
	}
	cs := w.clientState()
	var wMine, wAnn, wDropIdle, wArmDrop, wArmGet, wArmSub, wRefuse, wAdv, wRestart, wBoot, wConsume int
	if w.lagMode {
		wConsume = 6 // tokens in advance: some entries pass without waiting
		if w.lagging() {
			wConsume = 45
		}
	}
	switch cs {
	case "syncing": // historical sync in progress, the handler lags
		wMine, wAdv = 15, 8
		wArmDrop, wArmGet = on("en_drop_req", 4), on("en_getlogs_fail", 4)
		wRestart = on("en_restart", 2)
	case "subscribed":
		wMine, wAnn, wAdv = 26, 30, 4
		wDropIdle, wArmDrop, wArmGet, wArmSub, wRefuse = on("en_drop_idle", 6), on("en_drop_req", 6), on("en_getlogs_fail", 6), on("en_sub_fail", 2), on("en_refuse", 2)
		wRestart = on("en_restart", 1)
	case "reconnecting":
		wMine, wAdv = 12, 60
		wArmDrop, wArmGet, wArmSub, wRefuse = on("en_drop_req", 5), on("en_getlogs_fail", 5), on("en_sub_fail", 6), on("en_refuse", 6)
		wRestart = on("en_restart", 1)
	default: // the node process is gone
		wMine, wBoot, wRestart, wAdv = 15, 50, 10, 5
		wArmDrop, wArmGet = on("en_drop_req", 8), on("en_getlogs_fail", 8)
	}
	switch r.Weighted(wMine, wAnn, wDropIdle, wArmDrop, wArmGet, wArmSub, wRefuse, wAdv, wRestart, wBoot, wConsume) {
	case 0:
		if r.Pct(cfg.Get("minerun", 20)) {
			w.mineRun = r.Range(1, 6)
		}
		return w.genMine(r)
	case 1:
		burst := int64(0)
		if cfg.Get("en_burst", 1) == 1 && r.Pct(20) {
			burst = 1
		}
		return &sim.Step{Op: "announce", A: []int64{int64(r.Weighted(70, 15, 10, 5)), burst}}
	case 2:
		return &sim.Step{Op: "drop_idle"}
	case 3:
		return &sim.Step{Op: "arm_drop", A: []int64{int64(r.Weighted(30, 25, 15, 10, 8, 5, 4, 3))}}
	case 4:
		return &sim.Step{Op: "arm_getlogs_fail", A: []int64{int64(r.Weighted(35, 25, 15, 10, 10, 5))}}
	case 5:
		return &sim.Step{Op: "arm_sub_fail", A: []int64{int64(r.Weighted(70, 20, 10))}}
	case 6:
		return &sim.Step{Op: "refuse_dials", A: []int64{int64(r.Weighted(30, 25, 15, 10, 8, 5, 4, 3))}}
	case 7:
		return &sim.Step{Op: "advance", A: []int64{advanceChoices[r.Intn(len(advanceChoices))]}}
	case 8:
		return &sim.Step{Op: "restart"}
	case 9:
		return &sim.Step{Op: "boot"}
	default:
		k := int64(r.Weighted(35, 20, 12, 8, 5)) // 1..5 entries
		if r.Pct(20) {
			k = 999 // everything that is queued
		}
		return &sim.Step{Op: "consume", A: []int64{k}}
	}
}
