package elsim

import (
	"context"
	"encoding/binary"
	"errors"
	"fmt"
	"math/big"
	"net"
	"sort"
	"strconv"
	"strings"
	"testing/synctest"

	"github.com/ethereum/go-ethereum/common"
	"github.com/ethereum/go-ethereum/common/hexutil"
	ethtypes "github.com/ethereum/go-ethereum/core/types"
	"github.com/ethereum/go-ethereum/ethclient"
	"github.com/ethereum/go-ethereum/rpc"
)

// ---------------------------------------------------------------------------------------------
// The generated chain (owned by the simulator; the fake node serves it).

var (
	contractAddr = common.HexToAddress("0x5151515151515151515151515151515151515151")
	foreignAddr  = common.HexToAddress("0xf0f0f0f0f0f0f0f0f0f0f0f0f0f0f0f0f0f0f0f0")
	eventTopic   = common.HexToHash("0x00000000000000000000000000000000000000000000000000000000c13c13c1")
)

type clog struct {
	tx, idx uint
	removed bool
	foreign bool
}

type cblock struct {
	num  uint64
	logs []clog // in (tx index, log index) order
}

type chain struct {
	tip       uint64
	blocks    map[uint64]*cblock
	logBlocks []uint64 // ascending numbers of the blocks that carry any log
}

func newChain() *chain { return &chain{blocks: map[uint64]*cblock{}} }

// mine appends gap empty blocks and then one block with ntx transactions; transaction j emits
// 1+(perTx+j*vary)%24 logs; log k of the block (block order) is Removed if bit k%62 of removedMask is
// set, transaction j belongs to a foreign contract if bit j%62 of foreignMask is set.
func (c *chain) mine(gap uint64, ntx, perTx int, removedMask, foreignMask uint64, stride, vary int) *cblock {
	c.tip += gap + 1
	b := &cblock{num: c.tip}
	idx := uint(0)
	for j := 0; j < ntx; j++ {
		n := 1 + (perTx+j*vary)%24
		for k := 0; k < n; k++ {
			b.logs = append(b.logs, clog{
				tx:      uint(j * stride),
				idx:     idx,
				removed: removedMask&(1<<(uint(idx)%62)) != 0,
				foreign: foreignMask&(1<<(uint(j)%62)) != 0,
			})
			idx++
		}
	}
	if len(b.logs) > 0 {
		c.blocks[b.num] = b
		c.logBlocks = append(c.logBlocks, b.num)
	}
	return b
}

func blockHash(n uint64) common.Hash {
	return common.BigToHash(new(big.Int).SetUint64(0xb10c000000000000 | n))
}

func (c *chain) ethLog(b *cblock, l clog) ethtypes.Log {
	addr := contractAddr
	if l.foreign {
		addr = foreignAddr
	}
	data := make([]byte, 16)
	binary.BigEndian.PutUint64(data[:8], b.num)
	binary.BigEndian.PutUint64(data[8:], uint64(l.idx))
	return ethtypes.Log{
		Address:     addr,
		Topics:      []common.Hash{eventTopic},
		Data:        data,
		BlockNumber: b.num,
		TxHash:      common.BigToHash(new(big.Int).SetUint64(b.num<<16 | uint64(l.tx))),
		TxIndex:     l.tx,
		BlockHash:   blockHash(b.num),
		Index:       l.idx,
		Removed:     l.removed,
	}
}

// expected = the block's non-removed logs of the contract, in (tx index, log index) order.
func (c *chain) expected(n uint64) []clog {
	b := c.blocks[n]
	if b == nil {
		return nil
	}
	var out []clog
	for _, l := range b.logs {
		if !l.removed && !l.foreign {
			out = append(out, l)
		}
	}
	return out
}

// logBlocksIn returns the numbers in [lo,hi] of blocks that have expected logs.
func (c *chain) logBlocksIn(lo, hi uint64) []uint64 {
	if hi < lo {
		return nil
	}
	i := sort.Search(len(c.logBlocks), func(i int) bool { return c.logBlocks[i] >= lo })
	var out []uint64
	for ; i < len(c.logBlocks) && c.logBlocks[i] <= hi; i++ {
		if len(c.expected(c.logBlocks[i])) > 0 {
			out = append(out, c.logBlocks[i])
		}
	}
	return out
}

func (c *chain) header(n uint64) *ethtypes.Header {
	h := &ethtypes.Header{Number: new(big.Int).SetUint64(n), Difficulty: big.NewInt(0), Time: 1_700_000_000 + 12*n}
	if n > 0 {
		h.ParentHash = blockHash(n - 1)
	}
	return h
}

// ---------------------------------------------------------------------------------------------
// The fake node: go-ethereum's rpc.Server with an "eth" service, one server per connection, served
// over net.Pipe; the client end is handed to the real ExecutionClient through VerifDial.

type conn struct {
	id       int
	cli, srv net.Conn
	server   *rpc.Server
	rpcc     *rpc.Client
	dropped  bool // closed by the simulator (server end)
	notifier *rpc.Notifier
	sub      *rpc.Subscription
	subLive  bool
}

type ethService struct {
	w *world
	c *conn
}

// request bookkeeping shared by all methods (caller holds w.mu; it is released while parked).
// "Drop the connection instead of replying": the handler parks without replying until the whole
// bubble is quiescent (the client has finished sending and waits for the reply); the driver then
// closes the connection and releases the handler, whose reply goes nowhere. Closing from inside the
// handler would race with the client's own send path (go-ethereum rpc.Client: a read error that
// overtakes the reqSent notification of the request in flight), which no seed controls.
func (s *ethService) admit(method, detail string) error {
	w := s.w
	w.reqCount++
	if w.dropAt != 0 && w.reqCount == w.dropAt {
		w.dropAt = 0
		w.reqLog = append(w.reqLog, fmt.Sprintf("req#%d c%d %s %s -> CONNECTION DROPPED instead of reply", w.reqCount, s.c.id, method, detail))
		w.fired = append(w.fired, "conn-drop-instead-of-reply:"+method)
		w.endInvocation(method, true)
		park := make(chan struct{})
		w.parked = append(w.parked, parkedDrop{c: s.c, release: park})
		w.mu.Unlock()
		<-park
		w.mu.Lock()
		return errors.New("sim: connection dropped")
	}
	return nil
}

type parkedDrop struct {
	c       *conn
	release chan struct{}
}

// quiesce waits until every goroutine of the bubble is durably blocked, executing parked drops.
func (w *world) quiesce() {
	for {
		synctest.Wait()
		w.mu.Lock()
		p := w.parked
		w.parked = nil
		for _, x := range p {
			x.c.dropped, x.c.subLive = true, false
			_ = x.c.srv.Close()
		}
		w.mu.Unlock()
		if len(p) == 0 {
			return
		}
		for _, x := range p {
			close(x.release)
		}
	}
}

func (s *ethService) BlockNumber() (hexutil.Uint64, error) {
	w := s.w
	w.mu.Lock()
	defer w.mu.Unlock()
	if err := s.admit("eth_blockNumber", ""); err != nil {
		return 0, err
	}
	tip := w.chain.tip
	if tip > w.maxHeadTold {
		w.maxHeadTold = tip
	}
	w.headTold = true
	w.reqLog = append(w.reqLog, fmt.Sprintf("req#%d c%d eth_blockNumber -> %d", w.reqCount, s.c.id, tip))
	return hexutil.Uint64(tip), nil
}

func (s *ethService) ChainId() (*hexutil.Big, error) { return (*hexutil.Big)(big.NewInt(5)), nil }

func (s *ethService) Syncing() (interface{}, error) { return false, nil }

type filterArg struct {
	FromBlock string           `json:"fromBlock"`
	ToBlock   string           `json:"toBlock"`
	Address   []common.Address `json:"address"`
	BlockHash *common.Hash     `json:"blockHash"`
}

var getLogsErrors = []string{"sim: getLogs failed", "query returned more than 10000 results", "read limit exceeded", "Log response size exceeded",
	"response size exceeded", "block range is too wide", "request timed out", "rate limit exceeded", "internal error"}

func (w *world) parseBlockArg(s string, def uint64) (uint64, error) {
	switch s {
	case "":
		return def, nil
	case "latest", "pending", "safe", "finalized":
		return w.chain.tip, nil
	case "earliest":
		return 0, nil
	}
	if !strings.HasPrefix(s, "0x") {
		return 0, fmt.Errorf("bad block number %q", s)
	}
	return strconv.ParseUint(s[2:], 16, 64)
}

func (s *ethService) GetLogs(crit filterArg) ([]ethtypes.Log, error) {
	w := s.w
	w.mu.Lock()
	defer w.mu.Unlock()
	from, err1 := w.parseBlockArg(crit.FromBlock, 0)
	to, err2 := w.parseBlockArg(crit.ToBlock, w.chain.tip)
	detail := fmt.Sprintf("[%d..%d]", from, to)
	if inv := w.curInvocation(); inv != nil {
		inv.getLogsReq++
		if inv.getLogsReq == 1 {
			inv.firstFrom = from
		}
	}
	if err := s.admit("eth_getLogs", detail); err != nil {
		return nil, err
	}
	w.getLogsCount++
	if w.failGetLogsAt != 0 && w.getLogsCount == w.failGetLogsAt {
		w.failGetLogsAt = 0
		w.reqLog = append(w.reqLog, fmt.Sprintf("req#%d c%d eth_getLogs %s -> ERROR reply", w.reqCount, s.c.id, detail))
		w.fired = append(w.fired, "getlogs-error-reply")
		w.endInvocation("eth_getLogs", false)
		// what providers really answer: a client that reacts to particular error texts must still
		// deliver every block (the text is a function of the request count: replayable)
		return nil, errors.New(getLogsErrors[w.getLogsCount%len(getLogsErrors)])
	}
	if err1 != nil || err2 != nil || crit.BlockHash != nil {
		w.reqLog = append(w.reqLog, fmt.Sprintf("req#%d c%d eth_getLogs unsupported filter", w.reqCount, s.c.id))
		return nil, errors.New("sim: unsupported filter")
	}
	out := []ethtypes.Log{}
	if to > w.chain.tip {
		to = w.chain.tip
	}
	for _, n := range w.chainLogBlocksRaw(from, to) {
		b := w.chain.blocks[n]
		for _, l := range b.logs {
			el := w.chain.ethLog(b, l)
			if len(crit.Address) > 0 {
				ok := false
				for _, a := range crit.Address {
					ok = ok || a == el.Address
				}
				if !ok {
					continue
				}
			}
			out = append(out, el)
		}
	}
	if inv := w.curInvocation(); inv != nil {
		inv.getLogsOK++
	}
	if len(out) > 0 {
		w.logBatches++
	}
	w.reqLog = append(w.reqLog, fmt.Sprintf("req#%d c%d eth_getLogs %s filter=%d -> %d logs", w.reqCount, s.c.id, detail, len(crit.Address), len(out)))
	return out, nil
}

func (w *world) chainLogBlocksRaw(lo, hi uint64) []uint64 {
	if hi < lo {
		return nil
	}
	lb := w.chain.logBlocks
	i := sort.Search(len(lb), func(i int) bool { return lb[i] >= lo })
	j := sort.Search(len(lb), func(i int) bool { return lb[i] > hi })
	return lb[i:j]
}

// NewHeads serves eth_subscribe("newHeads"). Every call is the start of one streamLogsToChan
// invocation of the client.
func (s *ethService) NewHeads(ctx context.Context) (*rpc.Subscription, error) {
	w := s.w
	w.mu.Lock()
	defer w.mu.Unlock()
	w.beginInvocation(true)
	if err := s.admit("eth_subscribe", "newHeads"); err != nil {
		return nil, err
	}
	if w.failSubscribe > 0 {
		w.failSubscribe--
		w.reqLog = append(w.reqLog, fmt.Sprintf("req#%d c%d eth_subscribe newHeads -> ERROR reply", w.reqCount, s.c.id))
		w.fired = append(w.fired, "subscribe-error-reply")
		w.endInvocation("eth_subscribe", false)
		return nil, errors.New("sim: subscribe failed")
	}
	notifier, ok := rpc.NotifierFromContext(ctx)
	if !ok {
		return nil, rpc.ErrNotificationsUnsupported
	}
	sub := notifier.CreateSubscription()
	s.c.notifier, s.c.sub, s.c.subLive = notifier, sub, true
	if inv := w.curInvocation(); inv != nil {
		inv.subscribed = true
	}
	c := s.c
	go func() { // ends on eth_unsubscribe or when the connection closes
		<-sub.Err()
		w.mu.Lock()
		if c.sub == sub {
			c.subLive = false
		}
		w.mu.Unlock()
	}()
	w.reqLog = append(w.reqLog, fmt.Sprintf("req#%d c%d eth_subscribe newHeads -> ok", w.reqCount, s.c.id))
	return sub, nil
}

// dial is installed as executionclient.VerifDial for the duration of a run.
func (w *world) dial(ctx context.Context, addr string) (*ethclient.Client, error) {
	w.mu.Lock()
	defer w.mu.Unlock()
	w.dialCount++
	if err := ctx.Err(); err != nil {
		w.reqLog = append(w.reqLog, fmt.Sprintf("dial#%d -> context %v", w.dialCount, err))
		return nil, err
	}
	if w.refuseDials > 0 {
		w.refuseDials--
		w.reqLog = append(w.reqLog, fmt.Sprintf("dial#%d -> REFUSED", w.dialCount))
		w.fired = append(w.fired, "dial-refused")
		return nil, errors.New("sim: connection refused")
	}
	cli, srv := net.Pipe()
	c := &conn{id: len(w.conns), cli: cli, srv: srv, server: rpc.NewServer()}
	if err := c.server.RegisterName("eth", &ethService{w: w, c: c}); err != nil {
		panic(err)
	}
	go c.server.ServeCodec(rpc.NewCodec(srv), 0)
	rc, err := rpc.DialIO(ctx, cli, cli)
	if err != nil {
		panic(err)
	}
	c.rpcc = rc
	w.conns = append(w.conns, c)
	w.reqLog = append(w.reqLog, fmt.Sprintf("dial#%d -> connection c%d", w.dialCount, c.id))
	return ethclient.NewClient(rc), nil
}

// liveConn is the connection the client is currently using (the most recent one), if not dropped.
func (w *world) liveConn() *conn {
	if len(w.conns) == 0 {
		return nil
	}
	c := w.conns[len(w.conns)-1]
	if c.dropped {
		return nil
	}
	return c
}
