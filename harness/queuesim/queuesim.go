// Package queuesim: C14 — the validator message queue neither loses nor duplicates messages.
// Real: queue.New (priorityQueue), standardPrioritizer, DecodedSSVMessage. The simulator is the
// producers, the consumer, the clock (synctest bubble) and the reference multiset.
package queuesim

import (
	"context"
	"fmt"
	"sort"
	"strings"
	"sync"
	"testing"
	"testing/synctest"
	"time"

	"github.com/anishathalye/porcupine"
	"github.com/attestantio/go-eth2-client/spec/phase0"
	specqbft "github.com/bloxapp/ssv-spec/qbft"
	spectypes "github.com/bloxapp/ssv-spec/types"

	"github.com/bloxapp/ssv/protocol/v2/ssv/queue"
	ssvtypes "github.com/bloxapp/ssv/protocol/v2/types"

	"verifharness/sim"
)

// message kinds
const (
	kExec = iota
	kTimeout
	kProposal
	kPrepare
	kCommit
	kRoundChange
	kDecided
	kPre
	kPost
	nKinds
)

var kindNames = []string{"exec", "timeout", "proposal", "prepare", "commit", "rc", "decided", "pre", "post"}

type msg struct {
	id      int
	kind    int
	height  int64
	round   int64
	slot    int64
	m       *queue.DecodedSSVMessage
	pushed  time.Time // fake-clock instant at which the push returned
	pushSeq int       // operation sequence number of the push
}

func (m *msg) String() string {
	return fmt.Sprintf("#%d:%s(h%d,r%d,s%d)", m.id, kindNames[m.kind], m.height, m.round, m.slot)
}

func build(id, kind int, height, round, slot int64) *msg {
	x := &msg{id: id, kind: kind, height: height, round: round, slot: slot}
	ssv := &spectypes.SSVMessage{}
	switch kind {
	case kExec:
		ssv.MsgType = 2 // message.SSVEventMsgType (value irrelevant to the queue)
		x.m = &queue.DecodedSSVMessage{SSVMessage: ssv, Body: &ssvtypes.EventMsg{Type: ssvtypes.ExecuteDuty}}
	case kTimeout:
		x.m = &queue.DecodedSSVMessage{SSVMessage: ssv, Body: &ssvtypes.EventMsg{Type: ssvtypes.Timeout}}
	case kProposal, kPrepare, kCommit, kRoundChange, kDecided:
		ssv.MsgType = spectypes.SSVConsensusMsgType
		sm := &specqbft.SignedMessage{Signers: []spectypes.OperatorID{1}}
		sm.Message.Height = specqbft.Height(height)
		sm.Message.Round = specqbft.Round(round)
		switch kind {
		case kProposal:
			sm.Message.MsgType = specqbft.ProposalMsgType
		case kPrepare:
			sm.Message.MsgType = specqbft.PrepareMsgType
		case kCommit:
			sm.Message.MsgType = specqbft.CommitMsgType
		case kRoundChange:
			sm.Message.MsgType = specqbft.RoundChangeMsgType
		case kDecided:
			sm.Message.MsgType = specqbft.CommitMsgType
			sm.Signers = []spectypes.OperatorID{1, 2, 3, 4}
		}
		x.m = &queue.DecodedSSVMessage{SSVMessage: ssv, Body: sm}
	case kPre, kPost:
		ssv.MsgType = spectypes.SSVPartialSignatureMsgType
		pm := &spectypes.SignedPartialSignatureMessage{Signer: 1}
		pm.Message.Slot = phase0.Slot(slot)
		if kind == kPre {
			pm.Message.Type = spectypes.RandaoPartialSig
		} else {
			pm.Message.Type = spectypes.PostConsensusPartialSig
		}
		x.m = &queue.DecodedSSVMessage{SSVMessage: ssv, Body: pm}
	}
	return x
}

// filters are described by (kind, mask, height, round) so they are pure functions of the step.
type filt struct {
	kind          int64 // 0 any, 1 none, 2 only exec, 3 hold prepare/commit of (height,round), 4 kind mask, 5 id parity
	mask          int64
	height, round int64
}

func (f filt) admits(x *msg) bool {
	switch f.kind {
	case 0:
		return true
	case 1:
		return false
	case 2:
		return x.kind == kExec
	case 3:
		if x.kind < kProposal || x.kind > kDecided {
			return true
		}
		if x.height != f.height || x.round != f.round {
			return true
		}
		return x.kind != kPrepare && x.kind != kCommit && x.kind != kDecided
	case 4:
		return f.mask&(1<<uint(x.kind)) != 0
	default:
		return int64(x.id%2) == f.mask%2
	}
}

func (f filt) String() string {
	return fmt.Sprintf("f%d/%x/h%d/r%d", f.kind, f.mask, f.height, f.round)
}

type world struct {
	d                 *sim.D
	q                 queue.Queue
	cap               int
	byPtr             map[*queue.DecodedSSVMessage]*msg
	model             map[int]*msg // messages pushed successfully and not yet returned
	nextID            int
	lenDivergedAt     string
	opSeq, lastPopSeq int // operation counter; sequence number of the last completed pop operation
}

func (w *world) filterFn(f filt) queue.Filter {
	return func(m *queue.DecodedSSVMessage) bool {
		x := w.byPtr[m]
		if x == nil {
			return false
		}
		return f.admits(x)
	}
}

func (w *world) admissible(f filt) []*msg {
	var out []*msg
	for _, x := range w.model {
		if f.admits(x) {
			out = append(out, x)
		}
	}
	sort.Slice(out, func(i, j int) bool { return out[i].id < out[j].id })
	return out
}

func (w *world) absState() string {
	var c [nKinds]int
	for _, x := range w.model {
		c[x.kind]++
	}
	return fmt.Sprint(c)
}

// checkPop applies the oracle to the result of a pop with filter f and prioritizer state st.
func (w *world) checkPop(op string, f filt, st *queue.State, got *queue.DecodedSSVMessage, called time.Time) {
	d := w.d
	adm := w.admissible(f)
	if got == nil {
		d.Logf("%s %s -> nil (model=%d admissible=%d)", op, f, len(w.model), len(adm))
		if len(adm) > 0 {
			d.Violate("pop-nil-with-admissible", op, "%s with filter %s returned nil although %d admissible message(s) are queued, e.g. %s", op, f, len(adm), adm[0])
		}
	} else {
		x := w.byPtr[got]
		if x == nil || w.model[x.id] == nil {
			d.Violate("pop-returned-unknown", op, "%s returned a message that is not queued (duplicate or invented): %v", op, x)
			return
		}
		d.Logf("%s %s -> %s", op, f, x)
		if !f.admits(x) {
			d.Violate("pop-filter-violated", op, "%s returned %s which its filter %s does not admit", op, x, f)
		}
		// documented coarse order only
		// Pop (not TryPop) documents that it reads newly pushed messages at most once per
		// inboxReadFrequency (1 ms): a message pushed within the last millisecond may legitimately
		// not take part in the priority comparison yet. It is still never lost (conservation and
		// the nil rule above apply to it in full).
		has := func(pred func(*msg) bool) *msg {
			for _, y := range adm {
				// tolerated only when the returned message was already queued before the previous pop
				// operation finished (it can have been read earlier) and y arrived within the last ms
				if op == "pop" && x.pushSeq < w.lastPopSeq && !y.pushed.Add(time.Millisecond).Before(called) {
					continue
				}
				if pred(y) {
					return y
				}
			}
			return nil
		}
		switch {
		case x.kind == kExec:
		case has(func(y *msg) bool { return y.kind == kExec }) != nil:
			d.Violate("priority-order", "exec-first", "%s returned %s although admissible duty-start %s is queued", op, x, has(func(y *msg) bool { return y.kind == kExec }))
		case x.kind == kTimeout:
		case has(func(y *msg) bool { return y.kind == kTimeout }) != nil:
			d.Violate("priority-order", "timeout-second", "%s returned %s although admissible timeout %s is queued", op, x, has(func(y *msg) bool { return y.kind == kTimeout }))
		case x.kind >= kProposal && x.kind <= kDecided && x.height != int64(st.Height):
			if c := has(func(y *msg) bool { return y.kind >= kProposal && y.kind <= kDecided && y.height == int64(st.Height) }); c != nil {
				d.Violate("priority-order", "current-height-first", "%s returned other-height %s although current-height %s is queued (height %d)", op, x, c, st.Height)
			}
		}
		delete(w.model, x.id)
	}
	// Len() is a diagnostic that locates where a loss happened (it names the signature of the
	// conservation violation reported at the end), never a violation by itself.
	if w.lenDivergedAt == "" && w.q.Len() != len(w.model) {
		res := "msg"
		if got == nil {
			res = "nil"
		}
		w.lenDivergedAt = fmt.Sprintf("%s-returned-%s", op, res)
		d.Probe("len-diverged")
		d.Logf("diagnostic: Len()=%d model=%d after %s", w.q.Len(), len(w.model), op)
	}
	w.opSeq++
	w.lastPopSeq = w.opSeq
	d.State("q", op, w.absState())
}

func stateOf(s sim.Step, base int) (*queue.State, filt) {
	st := &queue.State{HasRunningInstance: s.Arg(base+4) == 1, Height: specqbft.Height(s.Arg(base + 2)), Round: specqbft.Round(s.Arg(base + 3)),
		Slot: phase0.Slot(s.Arg(base + 5)), Quorum: 3}
	f := filt{kind: s.Arg(base), mask: s.Arg(base + 1), height: s.Arg(base + 2), round: s.Arg(base + 3)}
	return st, f
}

func genPopArgs(r *sim.Rand) []int64 {
	fk := int64(r.Weighted(4, 1, 3, 4, 4, 1))
	return []int64{fk, int64(r.Intn(1 << nKinds)), int64(9 + r.Intn(3)), int64(1 + r.Intn(3)), int64(r.Intn(2)), int64(9 + r.Intn(3))}
}

func genPush(r *sim.Rand) []int64 {
	return []int64{int64(r.Intn(nKinds)), int64(9 + r.Intn(3)), int64(1 + r.Intn(3)), int64(9 + r.Intn(3)), int64(r.Intn(2))}
}

func genConfig(r *sim.Rand, tier string) sim.Config {
	c := sim.Config{"cap": int64(1 + r.Intn(8)), "scenario": int64(r.Weighted(6, 4)), "steps": int64(8 + r.Intn(40)),
		"producers": int64(2 + r.Intn(3))}
	if c["scenario"] == 1 && c["steps"] > 36 {
		c["steps"] = 36
	}
	return c
}

func run(t *testing.T, d *sim.D) {
	synctest.Test(t, func(t *testing.T) {
		if d.Cfg.Get("scenario", 0) == 0 {
			runSequential(d)
		} else {
			runConcurrent(d)
		}
	})
}

func runSequential(d *sim.D) {
	w := &world{d: d, cap: int(d.Cfg.Get("cap", 4)), byPtr: map[*queue.DecodedSSVMessage]*msg{}, model: map[int]*msg{}}
	w.q = queue.New(w.cap)
	max := int(d.Cfg.Get("steps", 20))
	t0 := time.Now()
	gen := func(r *sim.Rand) *sim.Step {
		if len(d.Steps) >= max {
			return nil
		}
		switch r.Weighted(10, 6, 4, 2) {
		case 0:
			return &sim.Step{Op: "push", A: genPush(r)}
		case 1:
			return &sim.Step{Op: "trypop", A: genPopArgs(r)}
		case 2:
			return &sim.Step{Op: "pop", A: append([]int64{int64(r.Intn(2)), int64(r.Intn(5))}, genPopArgs(r)...)}
		default:
			return &sim.Step{Op: "advance", A: []int64{int64(r.Intn(4))}}
		}
	}
	for {
		s, ok := d.Next(gen)
		if !ok {
			break
		}
		switch s.Op {
		case "push":
			x := build(w.nextID, int(s.Arg(0))%nKinds, s.Arg(1), s.Arg(2), s.Arg(3))
			w.nextID++
			w.byPtr[x.m] = x
			okp := true
			if s.Arg(4) == 1 && w.q.Len() < w.cap {
				w.q.Push(x.m) // cannot block: Len() >= len(inbox)
			} else {
				okp = w.q.TryPush(x.m)
				if !okp {
					d.Fault("trypush-full")
				}
			}
			if okp {
				w.model[x.id] = x
				x.pushed = time.Now()
				w.opSeq++
				x.pushSeq = w.opSeq
			}
			d.Logf("push %s ok=%v", x, okp)
			d.State("q", "push", w.absState())
		case "trypop":
			st, f := stateOf(s, 0)
			got := w.q.TryPop(queue.NewMessagePrioritizer(st), w.filterFn(f))
			w.checkPop("trypop", f, st, got, time.Now())
		case "pop":
			st, f := stateOf(s, 2)
			if s.Arg(0) == 1 || s.Arg(1) == 0 {
				// A Pop whose context is already done while the inbox still holds messages has two ready
				// select cases; which one the runtime takes is not seedable. Keep only one cause in
				// flight: move the inbox into the list first with a try-pop that admits nothing (itself
				// an operation under test: it must return nil and lose nothing).
				none := filt{kind: 1}
				got := w.q.TryPop(queue.NewMessagePrioritizer(st), w.filterFn(none))
				w.checkPop("trypop", none, st, got, time.Now())
				if d.V != nil {
					break
				}
			}
			ctx, cancel := context.WithCancel(context.Background())
			if s.Arg(0) == 1 {
				cancel() // already-cancelled context: Pop must still hand out a queued admissible message
				d.Fault("pop-ctx-precancelled")
			} else {
				var c2 context.CancelFunc
				ctx, c2 = context.WithTimeout(ctx, time.Duration(s.Arg(1))*time.Millisecond)
				defer c2()
				d.Fault("pop-ctx-deadline")
			}
			called := time.Now()
			got := w.q.Pop(ctx, queue.NewMessagePrioritizer(st), w.filterFn(f))
			cancel()
			w.checkPop("pop", f, st, got, called)
		case "advance":
			time.Sleep(time.Duration(s.Arg(0)) * time.Millisecond)
		}
	}
	w.drain()
	d.SimTime = time.Since(t0)
	if len(d.Steps) >= 6 {
		d.Nontriv = true
	}
}

// drain: conservation — draining with FilterAny returns exactly the remaining multiset.
func (w *world) drain() {
	d := w.d
	if d.V != nil {
		return
	}
	st := &queue.State{Height: 10, Round: 1, Slot: 10, Quorum: 3}
	for i := 0; i < 10000; i++ {
		got := w.q.TryPop(queue.NewMessagePrioritizer(st), queue.FilterAny)
		if got == nil {
			break
		}
		x := w.byPtr[got]
		if x == nil || w.model[x.id] == nil {
			d.Violate("pop-returned-unknown", "drain", "drain returned a message that is not queued (duplicate): %v", x)
			return
		}
		delete(w.model, x.id)
	}
	if len(w.model) > 0 {
		var lost []string
		for _, x := range w.model {
			lost = append(lost, x.String())
		}
		sort.Strings(lost)
		sig := w.lenDivergedAt
		if sig == "" {
			sig = "unlocated"
		}
		d.Violate("conservation-lost", sig, "%d successfully pushed message(s) were never returned by any pop: %s (queue first shrank during: %s)", len(lost), strings.Join(lost, " "), sig)
	}
	d.Logf("drained ok")
}

// ---- concurrent scenario: producers + one consumer as goroutines in the bubble, one external
// event at a time, history checked with porcupine against the sequential multiset model.

type qin struct {
	Op   int // 0 push, 1 trypush, 2 pop, 3 trypop
	ID   int
	Filt filt
}
type qout struct {
	OK bool
	ID int // -1 = nil
}

func runConcurrent(d *sim.D) {
	w := &world{d: d, cap: int(d.Cfg.Get("cap", 4)), byPtr: map[*queue.DecodedSSVMessage]*msg{}, model: map[int]*msg{}}
	w.q = queue.New(w.cap)
	np := int(d.Cfg.Get("producers", 2))
	max := int(d.Cfg.Get("steps", 20))
	t0 := time.Now()
	msgs := map[int]*msg{}
	seq := 0
	tick := func() int64 { seq++; return int64(seq) } // callers hold mu or are the only runnable goroutine

	type task struct {
		in   qin
		call int64
		x    *msg
		st   *queue.State
		ctx  context.Context
	}
	var ops []porcupine.Operation
	type actor struct {
		ch     chan *task
		busy   bool
		cancel context.CancelFunc
	}
	actors := make([]*actor, np+1) // last = consumer
	done := make(chan struct{})
	var mu sync.Mutex
	record := func(client int, tk *task, out qout) {
		mu.Lock()
		defer mu.Unlock()
		// runs in the actor goroutine; the driver is parked in synctest.Wait / Sleep, and actors only
		// complete one at a time per external event except when a pop releases blocked pushers; the
		// stamp order then follows the runtime's FIFO channel queues.
		ops = append(ops, porcupine.Operation{ClientId: client, Input: tk.in, Call: tk.call, Output: out, Return: tick()})
	}
	for i := range actors {
		a := &actor{ch: make(chan *task)}
		actors[i] = a
		go func(i int, a *actor) {
			for {
				select {
				case <-done:
					return
				case tk := <-a.ch:
					switch tk.in.Op {
					case 0:
						w.q.Push(tk.x.m)
						record(i, tk, qout{OK: true})
					case 1:
						ok := w.q.TryPush(tk.x.m)
						record(i, tk, qout{OK: ok})
					case 2, 3:
						var got *queue.DecodedSSVMessage
						if tk.in.Op == 2 {
							got = w.q.Pop(tk.ctx, queue.NewMessagePrioritizer(tk.st), w.filterFn(tk.in.Filt))
						} else {
							got = w.q.TryPop(queue.NewMessagePrioritizer(tk.st), w.filterFn(tk.in.Filt))
						}
						id := -1
						if got != nil {
							if x := w.byPtr[got]; x != nil {
								id = x.id
							} else {
								id = -2
							}
						}
						record(i, tk, qout{OK: got != nil, ID: id})
					}
					mu.Lock()
					a.busy = false
					mu.Unlock()
				}
			}
		}(i, a)
	}
	gen := func(r *sim.Rand) *sim.Step {
		if len(d.Steps) >= max {
			return nil
		}
		switch r.Weighted(10, 7, 2, 2) {
		case 0:
			return &sim.Step{Op: "cpush", A: append([]int64{int64(r.Intn(np))}, genPush(r)...)}
		case 1:
			return &sim.Step{Op: "cpop", A: append([]int64{int64(r.Intn(3))}, genPopArgs(r)...)}
		case 2:
			return &sim.Step{Op: "ccancel"}
		default:
			return &sim.Step{Op: "advance", A: []int64{int64(r.Intn(4))}}
		}
	}
	for {
		s, ok := d.Next(gen)
		if !ok {
			break
		}
		switch s.Op {
		case "cpush":
			p := int(s.Arg(0)) % np
			a := actors[p]
			if a.busy { // producer still blocked in Push: precondition false -> no-op
				d.Probe("push-blocked-on-full-inbox")
				continue
			}
			x := build(w.nextID, int(s.Arg(1))%nKinds, s.Arg(2), s.Arg(3), s.Arg(4))
			w.nextID++
			w.byPtr[x.m] = x
			msgs[x.id] = x
			op := 1
			if s.Arg(5) == 1 {
				op = 0
			}
			a.busy = true
			a.ch <- &task{in: qin{Op: op, ID: x.id}, call: tick(), x: x}
			synctest.Wait()
			d.Logf("cpush p%d %s op=%d returned=%v", p, x, op, !a.busy)
		case "cpop":
			a := actors[np]
			if a.busy {
				d.Probe("pop-still-blocked")
				continue
			}
			st, f := stateOf(s, 1)
			op := 2
			if s.Arg(0) == 2 {
				op = 3
			}
			ctx, cancel := context.WithCancel(context.Background())
			a.cancel = cancel
			a.busy = true
			a.ch <- &task{in: qin{Op: op, Filt: f}, call: tick(), st: st, ctx: ctx}
			synctest.Wait()
			d.Logf("cpop op=%d %s returned=%v", op, f, !a.busy)
		case "ccancel":
			a := actors[np]
			if a.busy && a.cancel != nil {
				a.cancel()
				d.Fault("pop-ctx-cancelled-while-blocked")
				synctest.Wait()
				d.Logf("ccancel returned=%v", !a.busy)
			}
		case "advance":
			time.Sleep(time.Duration(s.Arg(0)) * time.Millisecond)
			synctest.Wait()
		}
		d.State("c", s.Op, fmt.Sprintf("ops=%d busy=%v", len(ops), actors[np].busy))
	}
	// stop faults: cancel a blocked pop, then drain so that blocked pushers complete
	if a := actors[np]; a.busy && a.cancel != nil {
		a.cancel()
		synctest.Wait()
	}
	for i := 0; i < 200; i++ {
		anyBusy := false
		for _, a := range actors[:np] {
			anyBusy = anyBusy || a.busy
		}
		a := actors[np]
		a.busy = true
		a.ch <- &task{in: qin{Op: 3, Filt: filt{}}, call: tick(), st: &queue.State{Height: 10, Round: 1, Slot: 10, Quorum: 3}}
		synctest.Wait()
		last := ops[len(ops)-1].Output.(qout)
		if !last.OK && !anyBusy {
			break
		}
	}
	close(done)
	synctest.Wait()
	d.SimTime = time.Since(t0)

	// oracle 1: conservation over the complete history
	pushed, popped := map[int]bool{}, map[int]int{}
	for _, o := range ops {
		in, out := o.Input.(qin), o.Output.(qout)
		if in.Op <= 1 && out.OK {
			pushed[in.ID] = true
		}
		if in.Op >= 2 && out.OK {
			popped[out.ID]++
			if !in.Filt.admits(msgs[out.ID]) && out.ID >= 0 {
				d.Violate("pop-filter-violated", "concurrent", "pop returned %s not admitted by %s", msgs[out.ID], in.Filt)
			}
		}
	}
	for id, n := range popped {
		if n > 1 || !pushed[id] {
			d.Violate("pop-returned-unknown", "concurrent", "message %d returned %d times (pushed=%v)", id, n, pushed[id])
		}
	}
	var lost []string
	for id := range pushed {
		if popped[id] == 0 {
			lost = append(lost, msgs[id].String())
		}
	}
	if len(lost) > 0 {
		sort.Strings(lost)
		d.Violate("conservation-lost", "concurrent", "%d pushed message(s) never returned: %s", len(lost), strings.Join(lost, " "))
	}
	// oracle 2: linearizability against the sequential multiset model
	model := porcupine.Model{
		Init: func() interface{} { return uint64(0) },
		Step: func(state, input, output interface{}) (bool, interface{}) {
			s, in, out := state.(uint64), input.(qin), output.(qout)
			switch in.Op {
			case 0, 1:
				if out.OK {
					return true, s | 1<<uint(in.ID)
				}
				return true, s
			default:
				if out.OK {
					if out.ID < 0 || s&(1<<uint(out.ID)) == 0 || !in.Filt.admits(msgs[out.ID]) {
						return false, s
					}
					return true, s &^ (1 << uint(out.ID))
				}
				for id := 0; id < 64; id++ {
					if s&(1<<uint(id)) != 0 && in.Filt.admits(msgs[id]) {
						return false, s
					}
				}
				return true, s
			}
		},
		Equal: func(a, b interface{}) bool { return a.(uint64) == b.(uint64) },
	}
	if len(ops) <= 60 && w.nextID < 64 {
		switch porcupine.CheckOperationsTimeout(model, ops, 30*time.Second) {
		case porcupine.Illegal:
			d.Violate("not-linearizable", "concurrent", "history of %d operations is not linearizable against the multiset model", len(ops))
		case porcupine.Unknown:
			d.Probe("porcupine-timeout-inconclusive")
		default:
			d.Probe("porcupine-linearizable")
		}
	}
	d.Logf("concurrent ops=%d pushed=%d popped=%d", len(ops), len(pushed), len(popped))
	if len(ops) >= 6 {
		d.Nontriv = true
	}
}

var Specs = map[string]*sim.Spec{
	"C14": {
		Sim: "queuesim", GenConfig: genConfig, Run: run,
		Real:        []string{"protocol/v2/ssv/queue: priorityQueue (New/Push/TryPush/Pop/TryPop/Len)", "standardPrioritizer", "DecodedSSVMessage"},
		Stub:        []string{"producers and consumer (simulator goroutines)", "clock (testing/synctest fake clock)", "filters (pure functions of the step)"},
		Rule:        "seeded programs of push/trypush/trypop/pop(ctx deadline|pre-cancelled)/advance over capacities 1-8 with 9 message kinds, 6 filter kinds and random prioritizer state; scenario 1 = 2-4 producer goroutines + 1 consumer in a synctest bubble, history checked with porcupine. A run is non-trivial if it executed >= 6 operations; distinct = distinct hash of the sequence of (op, multiset-by-kind after op).",
		Assumptions: []string{"Pop is called from one goroutine only (documented contract of the queue)", "interleaving granularity is blocking points: Go channel operations are atomic and the inbox channel is the only state shared between producers and consumer"},
	},
}
