// Package qbftsim: multi-operator QBFT simulation (regime A: single-threaded discrete-event loop).
// Honest operators are the real controller.Controller + instance.Instance of /repo; the network,
// the round timers, the storage back end and the Byzantine operators belong to the simulator.
// Serves C01 (agreement), C02 (quorum certificates), C06 (refinement vs ssv-spec), C07 (liveness).
package qbftsim

import (
	"bytes"
	"crypto/sha256"
	"encoding/json"
	"fmt"
	"sort"
	"sync"

	specqbft "github.com/bloxapp/ssv-spec/qbft"
	spectypes "github.com/bloxapp/ssv-spec/types"
	"github.com/bloxapp/ssv-spec/types/testingutils"
	"github.com/herumi/bls-eth-go-binary/bls"
	"github.com/pkg/errors"
	"go.uber.org/zap"

	"github.com/bloxapp/ssv/protocol/v2/qbft"
	"github.com/bloxapp/ssv/protocol/v2/qbft/controller"
	"github.com/bloxapp/ssv/protocol/v2/qbft/instance"
	qbftstorage "github.com/bloxapp/ssv/protocol/v2/qbft/storage"
	ssvtypes "github.com/bloxapp/ssv/protocol/v2/types"

	"verifharness/sim"
)

var logger = zap.NewNop()

var (
	ksMu    sync.Mutex
	ksCache = map[int]*testingutils.TestKeySet{}
)

func keySet(n int) *testingutils.TestKeySet {
	ksMu.Lock()
	defer ksMu.Unlock()
	if k := ksCache[n]; k != nil {
		return k
	}
	var k *testingutils.TestKeySet
	switch n {
	case 7:
		k = testingutils.Testing7SharesSet()
	case 10:
		k = testingutils.Testing10SharesSet()
	case 13:
		k = testingutils.Testing13SharesSet()
	default:
		k = testingutils.Testing4SharesSet()
	}
	ksCache[n] = k
	return k
}

// ---- stubs owned by the simulator

type capNet struct{ out []*spectypes.SSVMessage }

func (c *capNet) Broadcast(m *spectypes.SSVMessage) error { c.out = append(c.out, m); return nil }

type recTimer struct {
	armed  []specqbft.Round // every arming, in order
	height specqbft.Height
}

func (t *recTimer) TimeoutForRound(h specqbft.Height, r specqbft.Round) {
	t.armed = append(t.armed, r)
	t.height = h
}

type specTimer struct{ armed []specqbft.Round }

func (t *specTimer) TimeoutForRound(r specqbft.Round) { t.armed = append(t.armed, r) }

// memStore: in-memory QBFTStore that records every save (observation point of C02).
type saveRec struct {
	kind string
	inst *qbftstorage.StoredInstance
}
type memStore struct {
	highest map[string]*qbftstorage.StoredInstance
	byH     map[string]*qbftstorage.StoredInstance
	saves   []saveRec
}

func newMemStore() *memStore {
	return &memStore{highest: map[string]*qbftstorage.StoredInstance{}, byH: map[string]*qbftstorage.StoredInstance{}}
}
func cloneStored(i *qbftstorage.StoredInstance) *qbftstorage.StoredInstance {
	b, err := i.Encode()
	if err != nil {
		panic(err)
	}
	o := &qbftstorage.StoredInstance{}
	if err := o.Decode(b); err != nil {
		panic(err)
	}
	return o
}
func (m *memStore) GetHighestInstance(id []byte) (*qbftstorage.StoredInstance, error) {
	if i := m.highest[string(id)]; i != nil {
		return cloneStored(i), nil
	}
	return nil, nil
}
func (m *memStore) GetInstancesInRange(id []byte, from, to specqbft.Height) ([]*qbftstorage.StoredInstance, error) {
	var out []*qbftstorage.StoredInstance
	for h := from; h <= to; h++ {
		if i := m.byH[fmt.Sprintf("%s/%d", id, h)]; i != nil {
			out = append(out, cloneStored(i))
		}
	}
	return out, nil
}
func (m *memStore) SaveInstance(i *qbftstorage.StoredInstance) error {
	c := cloneStored(i)
	m.saves = append(m.saves, saveRec{"instance", c})
	m.byH[fmt.Sprintf("%s/%d", c.State.ID, c.State.Height)] = c
	return nil
}
func (m *memStore) SaveHighestInstance(i *qbftstorage.StoredInstance) error {
	c := cloneStored(i)
	m.saves = append(m.saves, saveRec{"highest", c})
	m.highest[string(c.State.ID)] = c
	return nil
}
func (m *memStore) SaveHighestAndHistoricalInstance(i *qbftstorage.StoredInstance) error {
	c := cloneStored(i)
	m.saves = append(m.saves, saveRec{"highest+historical", c})
	m.highest[string(c.State.ID)] = c
	m.byH[fmt.Sprintf("%s/%d", c.State.ID, c.State.Height)] = c
	return nil
}
func (m *memStore) GetInstance(id []byte, h specqbft.Height) (*qbftstorage.StoredInstance, error) {
	if i := m.byH[fmt.Sprintf("%s/%d", id, h)]; i != nil {
		return cloneStored(i), nil
	}
	return nil, nil
}
func (m *memStore) CleanAllInstances(*zap.Logger, []byte) error { return nil }

// ---- world

type node struct {
	idx      int
	id       spectypes.OperatorID
	honest   bool
	share    *spectypes.Share
	cfg      *qbft.Config
	ctrl     *controller.Controller
	net      *capNet
	timer    *recTimer
	store    *memStore
	started  bool
	startVal int
	reported [][]byte // FullData of every decided message returned by ProcessMsg to this operator
	savesChk int      // number of store saves already judged by the C02 oracle

	// C06: instance-level pair
	inst             *instance.Instance
	shadow           *specqbft.Instance
	shadowNet        *capNet
	shadowTimer      *specTimer
	compactOn        bool
	decidedCompacted bool // a compaction ran while the instance was decided (containers cleared)
	uncompared       bool // pair no longer compared after a contained (finding-class) divergence
}

type poolMsg struct {
	id   int
	from spectypes.OperatorID
	byz  bool
	raw  []byte
	sm   *specqbft.SignedMessage
	desc string
}

type pend struct{ msg, to int }

type world struct {
	d              *sim.D
	prop           string
	n, f           int
	ks             *testingutils.TestKeySet
	nodes          []*node
	honestIdx      []int
	byzIdx         []int
	identifier     []byte
	height         specqbft.Height
	pool           []*poolMsg
	pending        map[pend]bool
	values         [][]byte
	plan           []sim.Step
	quiet          bool // re-execution for C07 continuations: no logging, no oracle bookkeeping
	timeouts       int
	inContinuation bool
	maxRound       specqbft.Round
}

var errInvalidValue = errors.New("invalid value")

func valueCheck(data []byte) error {
	if len(data) == 0 || bytes.HasPrefix(data, []byte("bad")) {
		return errInvalidValue
	}
	return nil
}

// valueCheckOf: operator-local value check (value checks may legitimately differ between
// operators, e.g. because of local slashing protection): the "picky" operator also rejects value 2.
func (w *world) valueCheckOf(i int) specqbft.ProposedValueCheckF {
	picky := int(w.d.Cfg.Get("picky", -1)) == i
	return func(data []byte) error {
		if picky && bytes.Equal(data, []byte("value-C")) {
			return errInvalidValue
		}
		return valueCheck(data)
	}
}

func (w *world) logf(format string, a ...any) {
	if !w.quiet {
		w.d.Logf(format, a...)
	}
}

func valueName(w *world, v []byte) string {
	if len(v) == 0 {
		return "nil"
	}
	for i, x := range w.values {
		if bytes.Equal(x, v) {
			return fmt.Sprintf("V%d", i)
		}
	}
	if v == nil {
		return "nil"
	}
	h := sha256.Sum256(v)
	return fmt.Sprintf("?%x", h[:3])
}

func rootName(w *world, r [32]byte) string {
	for i, x := range w.values {
		if sha256.Sum256(x) == r {
			return fmt.Sprintf("V%d", i)
		}
	}
	if r == ([32]byte{}) {
		return "0"
	}
	return fmt.Sprintf("?%x", r[:3])
}

func newWorld(d *sim.D, prop string, instanceLevel bool) *world {
	cfg := d.Cfg
	n := int(cfg.Get("n", 4))
	w := &world{d: d, prop: prop, n: n, f: (n - 1) / 3, ks: keySet(n), pending: map[pend]bool{}}
	w.height = specqbft.Height(cfg.Get("height", 1))
	id := spectypes.NewMsgID(testingutils.TestingSSVDomainType, w.ks.ValidatorPK.Serialize(), spectypes.BNRoleAttester)
	w.identifier = id[:]
	w.values = [][]byte{[]byte("value-A"), []byte("value-B"), []byte("value-C"), []byte("value-D-fresh"), []byte("bad-value")}
	byzMask := cfg.Get("byz_mask", 0)
	for i := 0; i < n; i++ {
		nd := &node{idx: i, id: spectypes.OperatorID(i + 1), honest: byzMask&(1<<uint(i)) == 0}
		nd.share = &spectypes.Share{
			OperatorID:      nd.id,
			ValidatorPubKey: w.ks.ValidatorPK.Serialize(),
			SharePubKey:     w.ks.Shares[nd.id].GetPublicKey().Serialize(),
			DomainType:      testingutils.TestingSSVDomainType,
			Quorum:          w.ks.Threshold,
			PartialQuorum:   w.ks.PartialThreshold,
			Committee:       w.ks.Committee(),
		}
		nd.startVal = int((cfg.Get("start_vals", 0) >> uint(2*i)) & 3 % 3)
		if nd.honest {
			nd.net, nd.timer, nd.store = &capNet{}, &recTimer{}, newMemStore()
			nd.cfg = &qbft.Config{
				Signer:                testingutils.NewTestingKeyManager(),
				SigningPK:             nd.share.SharePubKey,
				Domain:                testingutils.TestingSSVDomainType,
				ValueCheckF:           w.valueCheckOf(i),
				ProposerF:             specqbft.RoundRobinProposer,
				Storage:               nd.store,
				Network:               nd.net,
				Timer:                 nd.timer,
				SignatureVerification: true,
			}
			if instanceLevel {
				nd.inst = instance.NewInstance(nd.cfg, nd.share, w.identifier, w.height)
				nd.shadowNet, nd.shadowTimer = &capNet{}, &specTimer{}
				nd.shadow = specqbft.NewInstance(&specqbft.Config{
					Signer:      testingutils.NewTestingKeyManager(),
					SigningPK:   nd.share.SharePubKey,
					Domain:      testingutils.TestingSSVDomainType,
					ValueCheckF: w.valueCheckOf(i),
					ProposerF:   specqbft.RoundRobinProposer,
					Network:     nd.shadowNet,
					Timer:       nd.shadowTimer,
				}, cloneShare(nd.share), w.identifier, w.height)
				nd.compactOn = cfg.Get("compact", 0) == 1
			} else {
				nd.ctrl = controller.NewController(w.identifier, nd.share, nd.cfg, cfg.Get("full_node", 0) == 1)
			}
			w.honestIdx = append(w.honestIdx, i)
		} else {
			w.byzIdx = append(w.byzIdx, i)
		}
		w.nodes = append(w.nodes, nd)
	}
	return w
}

func cloneShare(s *spectypes.Share) *spectypes.Share {
	c := *s
	c.Committee = append([]*spectypes.Operator(nil), s.Committee...)
	return &c
}

func (w *world) quorum() int { return int(w.ks.Threshold) }

func (w *world) instOf(nd *node) *instance.Instance {
	if nd.inst != nil {
		return nd.inst
	}
	if nd.ctrl == nil {
		return nil
	}
	return nd.ctrl.StoredInstances.FindInstance(w.height)
}

func describe(w *world, sm *specqbft.SignedMessage) string {
	t := []string{"proposal", "prepare", "commit", "rc"}
	k := "type?"
	if int(sm.Message.MsgType) < len(t) {
		k = t[sm.Message.MsgType]
	}
	s := fmt.Sprintf("%s(h%d r%d %s by%v", k, sm.Message.Height, sm.Message.Round, rootName(w, sm.Message.Root), sm.Signers)
	if sm.Message.MsgType == specqbft.RoundChangeMsgType && sm.Message.DataRound != 0 {
		s += fmt.Sprintf(" prepared@%d", sm.Message.DataRound)
	}
	if len(sm.Message.RoundChangeJustification) > 0 || len(sm.Message.PrepareJustification) > 0 {
		s += fmt.Sprintf(" just=%d/%d", len(sm.Message.RoundChangeJustification), len(sm.Message.PrepareJustification))
	}
	if sm.FullData != nil {
		s += " data=" + valueName(w, sm.FullData)
	}
	return s + ")"
}

// addToPool registers a message sent by `from`; recipients nil = every honest operator
// (including the sender itself: the node processes its own broadcasts, as over pubsub).
func (w *world) addToPool(from spectypes.OperatorID, byz bool, raw []byte, recipients []int) *poolMsg {
	sm := &specqbft.SignedMessage{}
	desc := "undecodable"
	if err := sm.Decode(raw); err == nil {
		desc = describe(w, sm)
	} else {
		sm = nil
	}
	pm := &poolMsg{id: len(w.pool), from: from, byz: byz, raw: raw, sm: sm, desc: desc}
	w.pool = append(w.pool, pm)
	if recipients == nil {
		recipients = w.honestIdx
	}
	for _, to := range recipients {
		w.pending[pend{pm.id, to}] = true
	}
	w.logf("send #%d from=%d byz=%v %s to=%v", pm.id, from, byz, desc, recipients)
	return pm
}

func (w *world) collect(nd *node) {
	for _, m := range nd.net.out {
		w.addToPool(nd.id, false, m.Data, nil)
	}
	nd.net.out = nil
}

func (w *world) pendingList() []pend {
	out := make([]pend, 0, len(w.pending))
	for p := range w.pending {
		out = append(out, p)
	}
	sort.Slice(out, func(i, j int) bool {
		if out[i].msg != out[j].msg {
			return out[i].msg < out[j].msg
		}
		return out[i].to < out[j].to
	})
	return out
}

// safely runs real code; a panic in the code under test is recorded, not hidden.
func (w *world) safely(what string, f func()) {
	defer func() {
		if r := recover(); r != nil {
			w.d.Probe("panic-in-code-under-test")
			w.logf("PANIC in %s: %v", what, r)
		}
	}()
	f()
}

func (w *world) start(nd *node) {
	if nd.started || !nd.honest {
		return
	}
	nd.started = true
	v := w.values[nd.startVal]
	var err error
	w.safely("StartNewInstance", func() { err = nd.ctrl.StartNewInstance(logger, w.height, v) })
	w.logf("start op=%d value=%s err=%v", nd.id, valueName(w, v), err != nil)
	w.collect(nd)
}

// deliver hands pool message m to honest operator `to` through Controller.ProcessMsg.
func (w *world) deliver(m *poolMsg, to *node) {
	if !to.honest || m.sm == nil {
		return
	}
	if w.pending[pend{m.id, to.idx}] {
		delete(w.pending, pend{m.id, to.idx})
	} else {
		w.d.Fault("duplicate-or-late-redelivery")
	}
	sm := &specqbft.SignedMessage{}
	if err := sm.Decode(m.raw); err != nil {
		return
	}
	var dec *specqbft.SignedMessage
	var err error
	w.safely("ProcessMsg", func() { dec, err = to.ctrl.ProcessMsg(logger, sm) })
	es := "ok"
	if err != nil {
		es = "err(" + err.Error() + ")"
	}
	if dec != nil {
		w.logf("deliver #%d -> op=%d %s DECIDED %s signers=%v", m.id, to.id, es, valueName(w, dec.FullData), dec.Signers)
		to.reported = append(to.reported, dec.FullData)
		w.onDecision(to, sm, dec)
	} else {
		w.logf("deliver #%d -> op=%d %s", m.id, to.id, es)
	}
	w.collect(to)
	w.afterStep(to, "deliver")
}

func (w *world) timeout(nd *node) bool {
	inst := w.instOf(nd)
	if !nd.honest || inst == nil || inst.State.Decided {
		return false
	}
	round := inst.State.Round
	if int(round)+1 >= instance.CutoffRound-w.f-3 && w.prop == "C07" && !w.inContinuation {
		return false // leave room for the f+3 rounds of the continuation before the cut-off
	}
	before := len(nd.timer.armed)
	data, _ := json.Marshal(ssvtypes.TimeoutData{Height: w.height, Round: round})
	var err error
	w.safely("OnTimeout", func() { err = nd.ctrl.OnTimeout(logger, ssvtypes.EventMsg{Type: ssvtypes.Timeout, Data: data}) })
	w.timeouts++
	w.d.Fault("round-timeout")
	w.logf("timeout op=%d round=%d err=%v -> round=%d", nd.id, round, err != nil, inst.State.Round)
	if w.prop == "C07" && int(round) < instance.CutoffRound-1 {
		w.checkTimeoutEffect(nd, inst, round, before, err)
	}
	w.collect(nd)
	w.afterStep(nd, "timeout")
	return true
}

func (w *world) absState() string {
	var b bytes.Buffer
	for _, i := range w.honestIdx {
		nd := w.nodes[i]
		inst := w.instOf(nd)
		if inst == nil {
			b.WriteString("-|")
			continue
		}
		s := inst.State
		fmt.Fprintf(&b, "%d,%d,%s,%v,%v|", s.Round, s.LastPreparedRound, valueName(w, s.LastPreparedValue), s.ProposalAcceptedForCurrentRound != nil, s.Decided)
		if s.Round > w.maxRound {
			w.maxRound = s.Round
		}
	}
	return b.String()
}

func (w *world) afterStep(nd *node, kind string) {
	if w.quiet {
		return
	}
	w.d.State(fmt.Sprint(nd.id), kind, w.absState())
	switch w.prop {
	case "C01":
		w.checkAgreement()
	case "C02":
		w.checkSaves(nd)
	}
}

func sk(w *world, id spectypes.OperatorID) *bls.SecretKey { return w.ks.Shares[id] }
