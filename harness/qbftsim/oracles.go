package qbftsim

import (
	"bytes"
	"crypto/sha256"
	"fmt"

	specqbft "github.com/bloxapp/ssv-spec/qbft"
	spectypes "github.com/bloxapp/ssv-spec/types"
	"github.com/bloxapp/ssv-spec/types/testingutils"
	"github.com/herumi/bls-eth-go-binary/bls"

	"github.com/bloxapp/ssv/protocol/v2/qbft/instance"
)

// ---- C01: agreement. Statement-level oracle: decisions only.
func (w *world) checkAgreement() {
	var ref []byte
	var refWho string
	cmp := func(who string, v []byte) {
		if ref == nil {
			ref, refWho = v, who
			return
		}
		if !bytes.Equal(ref, v) {
			w.d.Violate("agreement", "two-values", "%s decided %s but %s decided %s (height %d)", refWho, valueName(w, ref), who, valueName(w, v), w.height)
		}
	}
	for _, i := range w.honestIdx {
		nd := w.nodes[i]
		if inst := w.instOf(nd); inst != nil && inst.State.Decided {
			cmp(fmt.Sprintf("op%d(state)", nd.id), inst.State.DecidedValue)
		}
		for _, v := range nd.reported {
			cmp(fmt.Sprintf("op%d(reported)", nd.id), v)
		}
	}
	// mechanism-level diagnostics (probes only, never a violation)
	prep := map[specqbft.Round]map[string]bool{}
	for _, i := range w.honestIdx {
		inst := w.instOf(w.nodes[i])
		if inst == nil {
			continue
		}
		if inst.State.LastPreparedRound != specqbft.NoRound {
			r := inst.State.LastPreparedRound
			if prep[r] == nil {
				prep[r] = map[string]bool{}
			}
			prep[r][string(inst.State.LastPreparedValue)] = true
		}
	}
	for _, m := range prep {
		if len(m) > 1 {
			w.d.Probe("diag-two-prepared-values-in-one-round")
		}
	}
}

// ---- C02: every reported decision carries a verifiable certificate.
// Independent verifier: herumi FastAggregateVerify over exactly the listed share keys on the
// signing root computed with the pinned ssv-spec (not with /repo's types.VerifyByOperators).
func (w *world) verifyCert(sm *specqbft.SignedMessage) string {
	if sm == nil {
		return "no decided message"
	}
	if sm.Message.MsgType != specqbft.CommitMsgType {
		return "certificate is not of commit type"
	}
	if len(sm.Signers) < 2*w.f+1 {
		return fmt.Sprintf("only %d signers, need %d", len(sm.Signers), 2*w.f+1)
	}
	seen := map[spectypes.OperatorID]bool{}
	pks := make([]bls.PublicKey, 0, len(sm.Signers))
	for _, s := range sm.Signers {
		if s == 0 || int(s) > w.n {
			return fmt.Sprintf("signer %d is not a committee member", s)
		}
		if seen[s] {
			return fmt.Sprintf("signer %d repeated", s)
		}
		seen[s] = true
		pks = append(pks, *w.ks.Shares[s].GetPublicKey())
	}
	if sm.Message.Height != w.height && w.prop != "C15" {
		return fmt.Sprintf("certificate height %d differs from the instance height %d", sm.Message.Height, w.height)
	}
	if !bytes.Equal(sm.Message.Identifier, w.identifier) {
		return "certificate identifier is not the controller's"
	}
	if sha256.Sum256(sm.FullData) != sm.Message.Root {
		return "value does not hash to the certified root"
	}
	root, err := spectypes.ComputeSigningRoot(&sm.Message, spectypes.ComputeSignatureDomain(testingutils.TestingSSVDomainType, spectypes.QBFTSignatureType))
	if err != nil {
		return "cannot compute signing root: " + err.Error()
	}
	sig := &bls.Sign{}
	if err := sig.Deserialize(sm.Signature); err != nil {
		return "signature does not deserialize"
	}
	if !sig.FastAggregateVerify(pks, root[:]) {
		return "aggregate signature does not verify under the listed signers' keys"
	}
	return ""
}

func isDecidedShape(w *world, sm *specqbft.SignedMessage) bool {
	return sm.Message.MsgType == specqbft.CommitMsgType && len(sm.Signers) >= 2*w.f+1
}

// onDecision: operator `nd` reported `dec` as decided while processing `in`.
func (w *world) onDecision(nd *node, in, dec *specqbft.SignedMessage) {
	if w.quiet || w.prop != "C02" {
		return
	}
	w.d.Probe("decision-reported")
	if why := w.verifyCert(dec); why != "" {
		w.d.Violate("decision-without-certificate", "reported", "op%d reported a decision on %s whose certificate is invalid: %s (signers %v, round %d)", nd.id, valueName(w, dec.FullData), why, dec.Signers, dec.Message.Round)
		return
	}
	if !isDecidedShape(w, in) {
		// locally reached: value must pass the operator's value check and have been proposed by the
		// legitimate leader of its round
		w.d.Probe("decision-local")
		if w.valueCheckOf(nd.idx)(dec.FullData) != nil {
			w.d.Violate("local-decision-invalid-value", "value-check", "op%d decided locally on %s which fails its own value check", nd.id, valueName(w, dec.FullData))
		}
		leader := specqbft.RoundRobinProposer(&specqbft.State{Height: w.height, Share: nd.share}, dec.Message.Round)
		found := false
		for _, pm := range w.pool {
			if pm.sm != nil && pm.sm.Message.MsgType == specqbft.ProposalMsgType && pm.sm.Message.Round == dec.Message.Round &&
				pm.sm.Message.Root == dec.Message.Root && len(pm.sm.Signers) == 1 && pm.sm.Signers[0] == leader && pm.sm.Message.Height == w.height {
				found = true
				break
			}
		}
		if !found {
			w.d.Violate("local-decision-without-leader-proposal", "leader", "op%d decided locally in round %d on %s but the round leader op%d never proposed it", nd.id, dec.Message.Round, valueName(w, dec.FullData), leader)
		}
	} else {
		w.d.Probe("decision-from-decided-message")
	}
}

// checkSaves judges every instance handed to the store since the last call.
func (w *world) checkSaves(nd *node) {
	for ; nd.savesChk < len(nd.store.saves); nd.savesChk++ {
		s := nd.store.saves[nd.savesChk]
		w.d.Probe("store-save-" + s.kind)
		if why := w.verifyCert(s.inst.DecidedMessage); why != "" {
			w.d.Violate("decision-without-certificate", "stored", "op%d stored (%s) a decided instance whose certificate is invalid: %s", nd.id, s.kind, why)
			return
		}
		if !s.inst.State.Decided || !bytes.Equal(s.inst.State.DecidedValue, s.inst.DecidedMessage.FullData) {
			w.d.Violate("stored-state-mismatch", "stored", "op%d stored an instance whose state (decided=%v value=%s) does not match its certificate value %s", nd.id, s.inst.State.Decided, valueName(w, s.inst.State.DecidedValue), valueName(w, s.inst.DecidedMessage.FullData))
		}
	}
	// a decided state must always be explainable by a certificate the operator holds
	if inst := w.instOf(nd); inst != nil && inst.State.Decided {
		ok := false
		for _, msgs := range inst.State.CommitContainer.Msgs {
			signers := map[spectypes.OperatorID]bool{}
			for _, m := range msgs {
				if sha256.Sum256(inst.State.DecidedValue) != m.Message.Root {
					continue
				}
				if len(m.Signers) >= 2*w.f+1 && w.verifyCert(withData(m, inst.State.DecidedValue)) == "" {
					ok = true
				}
				if len(m.Signers) == 1 {
					signers[m.Signers[0]] = true
				}
			}
			if len(signers) >= 2*w.f+1 {
				ok = true
			}
		}
		if !ok {
			w.d.Violate("decided-state-without-quorum", "state", "op%d is decided on %s but holds no quorum of commits or certificate for it", nd.id, valueName(w, inst.State.DecidedValue))
		}
	}
}

func withData(m *specqbft.SignedMessage, data []byte) *specqbft.SignedMessage {
	c := *m
	c.FullData = data
	return &c
}

// ---- C07 side condition (b): a timeout before the cut-off moves the operator to the next round,
// clears the accepted proposal, re-arms the timer and announces the round.
func (w *world) checkTimeoutEffect(nd *node, inst *instance.Instance, round specqbft.Round, armedBefore int, err error) {
	if w.quiet {
		return
	}
	w.d.Probe("timeout-effect-checked")
	if inst.State.Round != round+1 {
		w.d.Violate("timeout-no-round-bump", "round", "op%d timed out in round %d but is now in round %d", nd.id, round, inst.State.Round)
		return
	}
	if inst.State.ProposalAcceptedForCurrentRound != nil {
		w.d.Violate("timeout-keeps-proposal", "proposal", "op%d kept an accepted proposal after timing out of round %d", nd.id, round)
	}
	if len(nd.timer.armed) <= armedBefore || nd.timer.armed[len(nd.timer.armed)-1] != round+1 {
		w.d.Violate("timeout-no-rearm", "timer", "op%d did not re-arm its timer for round %d after the timeout", nd.id, round+1)
	}
	announced := false
	for _, m := range nd.net.out {
		sm := &specqbft.SignedMessage{}
		if sm.Decode(m.Data) == nil && sm.Message.MsgType == specqbft.RoundChangeMsgType && sm.Message.Round == round+1 {
			announced = true
		}
	}
	if !announced {
		w.d.Violate("timeout-no-announcement", "round-change", "op%d did not broadcast a round-change for round %d after the timeout (err=%v)", nd.id, round+1, err)
	}
}
