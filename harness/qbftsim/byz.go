package qbftsim

import (
	"crypto/sha256"

	specqbft "github.com/bloxapp/ssv-spec/qbft"
	spectypes "github.com/bloxapp/ssv-spec/types"
	"github.com/bloxapp/ssv-spec/types/testingutils"

	"verifharness/sim"
)

// Byzantine operators are puppets: what they emit is chosen by the scheduler from the protocol's
// message grammar. They sign with their own share keys only (correct signatures); forgeries are a
// separate post-processing step.

const (
	tProposal = iota
	tPrepare
	tCommit
	tRoundChange
	tDecided
	nTemplates
)

// forge kinds (0 = none)
const (
	fgNone = iota
	fgBadSig
	fgForeignSigner
	fgZeroSigner
	fgDupSigner
	fgRootMismatch
	fgWrongHeight
	fgWrongIdentifier
	fgSubQuorumPadded
	fgGarbageType
	fgImpersonate
	nForge
)

var forgeNames = []string{"none", "bad-signature", "foreign-signer", "zero-signer", "duplicate-signer", "root-mismatch", "wrong-height", "wrong-identifier", "sub-quorum-padded", "garbage-type", "impersonate-honest"}

func (w *world) signAs(id spectypes.OperatorID, msg *specqbft.Message) *specqbft.SignedMessage {
	return testingutils.SignQBFTMsg(sk(w, id), id, msg)
}

// poolFilter returns decoded pool messages matching pred, first message per signer.
func (w *world) poolFilter(pred func(*specqbft.SignedMessage) bool) []*specqbft.SignedMessage {
	var out []*specqbft.SignedMessage
	seen := map[spectypes.OperatorID]bool{}
	for _, pm := range w.pool {
		if pm.sm == nil || len(pm.sm.Signers) != 1 || seen[pm.sm.Signers[0]] {
			continue
		}
		if pred(pm.sm) {
			seen[pm.sm.Signers[0]] = true
			c := &specqbft.SignedMessage{}
			if c.Decode(pm.raw) == nil {
				out = append(out, c)
			}
		}
	}
	return out
}

func subset(r *sim.Rand, in []*specqbft.SignedMessage, mode, quorum int) []*specqbft.SignedMessage {
	switch mode % 4 {
	case 0:
		return in
	case 1:
		if len(in) > quorum {
			p := r.Perm(len(in))[:quorum]
			out := make([]*specqbft.SignedMessage, 0, quorum)
			for _, i := range p {
				out = append(out, in[i])
			}
			return out
		}
		return in
	case 2:
		var out []*specqbft.SignedMessage
		for _, m := range in {
			if r.Chance(0.6) {
				out = append(out, m)
			}
		}
		return out
	default:
		return nil
	}
}

// byzBuild assembles the message of a "byz" step.
// A = [fromIdx, template, round, valueIdx, preparedRound, recipientMask, subSeed, forge]
func (w *world) byzBuild(s sim.Step) (*specqbft.SignedMessage, spectypes.OperatorID, []int) {
	if len(w.byzIdx) == 0 {
		return nil, 0, nil
	}
	from := w.nodes[w.byzIdx[int(s.Arg(0))%len(w.byzIdx)]].id
	tmpl := int(s.Arg(1)) % nTemplates
	round := specqbft.Round(1 + s.Arg(2)%17)
	val := w.values[int(s.Arg(3))%len(w.values)]
	root := sha256.Sum256(val)
	pr := specqbft.Round(s.Arg(4) % 12)
	r := sim.NewRand(uint64(s.Arg(6)))
	forge := int(s.Arg(7)) % nForge
	// directed mode (scripts): 0 = random subsets; 1 = use every available justification and keep
	// the step's own value (deviate from the highest prepared value if there is one); 2 = use every
	// available justification and behave; 3 = hide prepared round-changes, keep own value
	mode9 := int(s.Arg(8))
	q := w.quorum()

	base := specqbft.Message{Height: w.height, Round: round, Identifier: w.identifier, Root: root}
	var sm *specqbft.SignedMessage
	switch tmpl {
	case tPrepare:
		base.MsgType = specqbft.PrepareMsgType
		sm = w.signAs(from, &base)
	case tCommit:
		base.MsgType = specqbft.CommitMsgType
		sm = w.signAs(from, &base)
	case tRoundChange:
		base.MsgType = specqbft.RoundChangeMsgType
		base.Root = [32]byte{}
		var full []byte
		if pr > 0 {
			if pr >= round && r.Chance(0.8) {
				pr = round - 1
			}
		}
		if pr > 0 {
			base.Root, base.DataRound, full = root, pr, val
			preps := w.poolFilter(func(m *specqbft.SignedMessage) bool {
				return m.Message.MsgType == specqbft.PrepareMsgType && m.Message.Round == pr && m.Message.Root == root && m.Message.Height == w.height
			})
			preps = w.addByzOwn(preps, specqbft.PrepareMsgType, pr, root, r)
			if mode9 == 4 {
				w.d.Fault("byz-forged-justification")
				preps = w.forgeOthers(preps, specqbft.PrepareMsgType, pr, root, from)
			}
			j, _ := specqbft.MarshalJustifications(subset(r, preps, pick(mode9, r.Weighted(5, 3, 2, 1)), q))
			base.RoundChangeJustification = j
		}
		sm = w.signAs(from, &base)
		sm.FullData = full
	case tProposal:
		base.MsgType = specqbft.ProposalMsgType
		if round > 1 {
			rcs := w.poolFilter(func(m *specqbft.SignedMessage) bool {
				if mode9 == 5 { // replay genuine round-changes of earlier rounds (stale justification)
					return m.Message.MsgType == specqbft.RoundChangeMsgType && m.Message.Round <= round && m.Message.DataRound == 0 && m.Message.Height == w.height
				}
				return m.Message.MsgType == specqbft.RoundChangeMsgType && m.Message.Round == round && m.Message.Height == w.height
			})
			rcs = w.addByzOwn(rcs, specqbft.RoundChangeMsgType, round, [32]byte{}, r)
			if mode9 == 4 { // forge unprepared round-changes in the names of everybody else, drop the real ones
				w.d.Fault("byz-forged-justification")
				rcs = w.forgeOthers(nil, specqbft.RoundChangeMsgType, round, [32]byte{}, from)
			}
			mode := r.Weighted(5, 4, 2, 1)
			if mode9 != 0 {
				mode = 0
			}
			if mode9 == 6 { // a quorum of MESSAGES from fewer signers: unprepared round-changes only, padded with copies of a Byzantine one
				w.d.Fault("byz-duplicate-round-change-in-justification")
				var un []*specqbft.SignedMessage
				var own *specqbft.SignedMessage
				for _, m := range rcs {
					if m.Message.DataRound == 0 {
						un = append(un, m)
						if own == nil && !w.nodes[m.Signers[0]-1].honest {
							own = m
						}
					}
				}
				for own != nil && len(un) < q {
					un = append(un, own.DeepCopy())
				}
				rcs = un
			}
			if (mode9 == 0 && r.Chance(0.35)) || mode9 == 3 { // hide prepared round-changes (lock stealing attempt)
				var un []*specqbft.SignedMessage
				for _, m := range rcs {
					if m.Message.DataRound == 0 {
						un = append(un, m)
					}
				}
				rcs = un
			}
			rcs = subset(r, rcs, mode, q)
			var hp *specqbft.SignedMessage
			for _, m := range rcs {
				if m.Message.DataRound != 0 && (hp == nil || m.Message.DataRound > hp.Message.DataRound) {
					hp = m
				}
			}
			for _, m := range rcs { // justifications travel without full data
				m.FullData = nil
			}
			if hp != nil {
				if (mode9 == 0 && r.Chance(0.7)) || mode9 == 2 { // behave: re-propose the highest prepared value
					for _, v := range w.values {
						if sha256.Sum256(v) == hp.Message.Root {
							val, root = v, hp.Message.Root
							base.Root = root
						}
					}
				}
				preps := w.poolFilter(func(m *specqbft.SignedMessage) bool {
					return m.Message.MsgType == specqbft.PrepareMsgType && m.Message.Round == hp.Message.DataRound && m.Message.Root == hp.Message.Root && m.Message.Height == w.height
				})
				preps = w.addByzOwn(preps, specqbft.PrepareMsgType, hp.Message.DataRound, hp.Message.Root, r)
				pj, _ := specqbft.MarshalJustifications(subset(r, preps, pick(mode9, r.Weighted(6, 3, 1, 1)), q))
				base.PrepareJustification = pj
			}
			rj, _ := specqbft.MarshalJustifications(rcs)
			base.RoundChangeJustification = rj
		}
		sm = w.signAs(from, &base)
		sm.FullData = val
	case tDecided:
		base.MsgType = specqbft.CommitMsgType
		if mode9 == 6 { // the genuine certificate of the best-supported (round, root) with other data attached
			type rr struct {
				r    specqbft.Round
				root [32]byte
			}
			cnt, bestN := map[rr]int{}, 0
			for _, m := range w.poolFilter(func(m *specqbft.SignedMessage) bool {
				return m.Message.MsgType == specqbft.CommitMsgType && len(m.Signers) == 1 && m.Message.Height == w.height
			}) {
				k := rr{m.Message.Round, m.Message.Root}
				cnt[k]++
				if cnt[k] > bestN {
					bestN, round, root = cnt[k], k.r, k.root
				}
			}
			base.Round, base.Root = round, root
			forge = fgRootMismatch
			w.d.Fault("byz-decided-with-substituted-data")
		}
		commits := w.poolFilter(func(m *specqbft.SignedMessage) bool {
			return m.Message.MsgType == specqbft.CommitMsgType && m.Message.Round == round && m.Message.Root == root && m.Message.Height == w.height
		})
		commits = w.addByzOwn(commits, specqbft.CommitMsgType, round, root, r)
		want := q
		switch r.Weighted(5, 3, 2) {
		case 1:
			want = q - 1
		case 2:
			want = len(commits)
		}
		if forge == fgSubQuorumPadded {
			want = q - 1
		}
		if len(commits) > want {
			commits = commits[:want]
		}
		for _, c := range commits {
			if sm == nil {
				sm = c
			} else if err := sm.Aggregate(c); err != nil {
				return nil, 0, nil
			}
		}
		if sm == nil {
			return nil, 0, nil
		}
		sm.FullData = val
	}
	if sm == nil {
		return nil, 0, nil
	}
	w.applyForge(sm, forge, from, r)
	// recipients
	mask := s.Arg(5)
	var rec []int
	for k, i := range w.honestIdx {
		if mask == 0 || mask&(1<<uint(k)) != 0 {
			rec = append(rec, i)
		}
	}
	return sm, from, rec
}

// forgeOthers completes `in` with messages in the names of all operators not yet present, signed
// with the Byzantine operator's own key (they only pass where signatures are not verified).
func (w *world) forgeOthers(in []*specqbft.SignedMessage, t specqbft.MessageType, round specqbft.Round, root [32]byte, signer spectypes.OperatorID) []*specqbft.SignedMessage {
	have := map[spectypes.OperatorID]bool{}
	for _, m := range in {
		have[m.Signers[0]] = true
	}
	for id := spectypes.OperatorID(1); int(id) <= w.n; id++ {
		if have[id] {
			continue
		}
		m := &specqbft.Message{MsgType: t, Height: w.height, Round: round, Identifier: w.identifier, Root: root}
		sm := w.signAs(signer, m)
		if w.nodes[id-1].honest {
			sm.Signers = []spectypes.OperatorID{id}
		} else {
			sm = w.signAs(id, m)
		}
		in = append(in, sm)
	}
	return in
}

func pick(mode9, random int) int {
	if mode9 != 0 {
		return 0
	}
	return random
}

// addByzOwn adds freshly signed messages of every Byzantine operator (they collude).
func (w *world) addByzOwn(in []*specqbft.SignedMessage, t specqbft.MessageType, round specqbft.Round, root [32]byte, r *sim.Rand) []*specqbft.SignedMessage {
	have := map[spectypes.OperatorID]bool{}
	for _, m := range in {
		have[m.Signers[0]] = true
	}
	for _, i := range w.byzIdx {
		id := w.nodes[i].id
		if have[id] {
			continue
		}
		m := &specqbft.Message{MsgType: t, Height: w.height, Round: round, Identifier: w.identifier, Root: root}
		in = append(in, w.signAs(id, m))
	}
	return in
}

func (w *world) applyForge(sm *specqbft.SignedMessage, forge int, from spectypes.OperatorID, r *sim.Rand) {
	if forge == fgNone {
		return
	}
	w.d.Fault("byz-forgery-" + forgeNames[forge])
	switch forge {
	case fgBadSig:
		other := spectypes.OperatorID(1 + r.Intn(w.n))
		alt := w.signAs(other, &sm.Message)
		if other == from || len(sm.Signers) > 1 {
			alt.Signature[5] ^= 0x40
		}
		sm.Signature = alt.Signature
	case fgForeignSigner:
		sm.Signers = append(sm.Signers, spectypes.OperatorID(w.n+1+r.Intn(3)))
	case fgZeroSigner:
		sm.Signers = append([]spectypes.OperatorID{0}, sm.Signers...)
	case fgDupSigner:
		sm.Signers = append(sm.Signers, sm.Signers[0])
	case fgRootMismatch:
		sm.FullData = w.values[r.Intn(len(w.values))]
		if sha256.Sum256(sm.FullData) == sm.Message.Root {
			sm.FullData = []byte("other-data")
		}
	case fgWrongHeight:
		sm.Message.Height += specqbft.Height(1 + r.Intn(2))
		if len(sm.Signers) == 1 {
			sm.Signature = w.signAs(from, &sm.Message).Signature
		}
	case fgWrongIdentifier:
		id := append([]byte(nil), sm.Message.Identifier...)
		id[len(id)-1] ^= 1
		sm.Message.Identifier = id
		if len(sm.Signers) == 1 {
			sm.Signature = w.signAs(from, &sm.Message).Signature
		}
	case fgSubQuorumPadded:
		// claim more signers than signatures were aggregated
		have := map[spectypes.OperatorID]bool{}
		for _, s := range sm.Signers {
			have[s] = true
		}
		for id := spectypes.OperatorID(1); int(id) <= w.n && len(sm.Signers) < w.quorum(); id++ {
			if !have[id] {
				sm.Signers = append(sm.Signers, id)
			}
		}
	case fgImpersonate:
		// claim an honest operator as the single signer; the signature is the Byzantine operator's own
		if len(sm.Signers) == 1 && len(w.honestIdx) > 0 {
			sm.Signers = []spectypes.OperatorID{w.nodes[w.honestIdx[r.Intn(len(w.honestIdx))]].id}
		}
	case fgGarbageType:
		sm.Message.MsgType = specqbft.MessageType(4 + r.Intn(200))
		if len(sm.Signers) == 1 {
			sm.Signature = w.signAs(from, &sm.Message).Signature
		}
	}
}
