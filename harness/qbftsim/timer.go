package qbftsim

import (
	"context"
	"encoding/json"
	"fmt"
	"runtime"
	"sort"
	"sync"
	"sync/atomic"
	"testing"
	"testing/synctest"
	"time"

	"github.com/attestantio/go-eth2-client/spec/phase0"
	specqbft "github.com/bloxapp/ssv-spec/qbft"
	spectypes "github.com/bloxapp/ssv-spec/types"

	"github.com/bloxapp/ssv/protocol/v2/blockchain/beacon"
	"github.com/bloxapp/ssv/protocol/v2/qbft/roundtimer"
	ssvtypes "github.com/bloxapp/ssv/protocol/v2/types"

	"verifharness/sim"
)

// C17. Scenario 0 (regime B): the real roundtimer.RoundTimer under the synctest fake clock.
// Scenario 1 (regime A): stale / duplicate / foreign timeout events delivered to the real controller.

var timerRoles = []spectypes.BeaconRole{spectypes.BNRoleAttester, spectypes.BNRoleAggregator, spectypes.BNRoleProposer, spectypes.BNRoleSyncCommittee, spectypes.BNRoleSyncCommitteeContribution}

// deadlineOf: written from the documented rule (SIP "deterministic round timeout"), not read from
// the package: quick allowance 2 s per round up to round 8, then 2 min per round; base = 1/3 slot
// (attester, sync committee) or 2/3 slot (aggregator, contribution) measured from the duty's slot
// start; the proposer role has no slot base: arming time + 2 s (rounds <= 8) or + 2 min.
func deadlineOf(role spectypes.BeaconRole, slotStart, armed time.Time, round specqbft.Round) time.Time {
	const slot = 12 * time.Second
	quick, slow := 2*time.Second, 2*time.Minute
	if role == spectypes.BNRoleProposer {
		if round <= 8 {
			return armed.Add(quick)
		}
		return armed.Add(slow)
	}
	base := slot / 3
	if role == spectypes.BNRoleAggregator || role == spectypes.BNRoleSyncCommitteeContribution {
		base = slot / 3 * 2
	}
	var cum time.Duration
	if round <= 8 {
		cum = time.Duration(round) * quick
	} else {
		cum = 8*quick + time.Duration(round-8)*slow
	}
	return slotStart.Add(base + cum)
}

type arming struct {
	round    specqbft.Round
	at       time.Time
	deadline time.Time
	fired    int
}

type cbRec struct {
	round   specqbft.Round
	at      time.Time
	handler int
}

func runTimerScenario(t *testing.T, d *sim.D) {
	synctest.Test(t, func(t *testing.T) {
		net := beacon.NewNetwork(spectypes.MainNetwork)
		role := timerRoles[int(d.Cfg.Get("role", 0))%len(timerRoles)]
		// jump (for free) to a point well after the beacon genesis, inside a slot
		genesis := time.Unix(int64(net.MinGenesisTime()), 0)
		time.Sleep(time.Until(genesis.Add(time.Duration(d.Cfg.Get("slot0", 1000))*12*time.Second + time.Duration(d.Cfg.Get("offset_ms", 0))*time.Millisecond)))
		t0 := time.Now()
		height := specqbft.Height(net.EstimatedCurrentSlot()) + specqbft.Height(d.Cfg.Get("slot_delta", 0))
		slotStart := net.GetSlotStartTime(phase0.Slot(height))

		var mu sync.Mutex
		var cbs []cbRec
		handler := func(id int) roundtimer.OnRoundTimeoutF {
			return func(r specqbft.Round) {
				mu.Lock()
				cbs = append(cbs, cbRec{round: r, at: time.Now(), handler: id})
				mu.Unlock()
			}
		}
		ctx, cancel := context.WithCancel(context.Background())
		defer cancel()
		rt := roundtimer.New(ctx, net, role, handler(0))
		var arms []*arming
		cancelled := false
		judged := 0
		curHandler := 0

		judge := func() {
			mu.Lock()
			defer mu.Unlock()
			// callbacks run on their own goroutines: several at one fake instant have no defined order,
			// so the new batch is put into a canonical order (time, round) before it is logged and judged
			batch := cbs[judged:]
			sort.SliceStable(batch, func(i, j int) bool {
				if !batch[i].at.Equal(batch[j].at) {
					return batch[i].at.Before(batch[j].at)
				}
				return batch[i].round < batch[j].round
			})
			for ; judged < len(cbs); judged++ {
				cb := cbs[judged]
				d.Logf("callback round=%d at=+%v handler=%d", cb.round, cb.at.Sub(t0), cb.handler)
				d.Probe("callback")
				// the most recently armed round at that instant
				var cur *arming
				for _, a := range arms {
					if !a.at.After(cb.at) {
						cur = a
					}
				}
				if cur == nil {
					d.Violate("callback-without-arming", "none", "callback for round %d without any arming", cb.round)
					return
				}
				if cb.round != cur.round {
					d.Violate("stale-round-callback", "superseded", "callback for round %d at +%v although round %d was armed at +%v (re-arming must supersede)", cb.round, cb.at.Sub(t0), cur.round, cur.at.Sub(t0))
					return
				}
				cur.fired++
				if cur.fired > 1 {
					d.Violate("callback-twice", "same-arming", "round %d fired %d times for one arming", cb.round, cur.fired)
					return
				}
				if cb.at.Before(cur.deadline) {
					d.Violate("callback-early", fmt.Sprint(role), "round %d (%s) fired at +%v, %v before its deadline (slot start %+v, armed +%v)", cb.round, role, cb.at.Sub(t0), cur.deadline.Sub(cb.at), slotStart.Sub(t0), cur.at.Sub(t0))
					return
				}
				if cancelled {
					d.Probe("diag-callback-after-context-cancel")
				}
				if cb.at.After(cur.deadline.Add(time.Millisecond)) {
					d.Probe("diag-callback-late")
				}
			}
		}
		gen := func(r *sim.Rand) *sim.Step {
			if len(d.Steps) >= int(d.Cfg.Get("steps", 12)) {
				return nil
			}
			switch r.Weighted(6, 4, 5, 2, 1, 2) {
			case 5:
				return &sim.Step{Op: "burst", A: []int64{int64(1 + r.Intn(6))}}
			case 0:
				return &sim.Step{Op: "arm", A: []int64{int64(r.Weighted(8, 2, 1))}}
			case 1:
				return &sim.Step{Op: "advance", A: []int64{int64([]int{1, 50, 700, 1999, 2000, 2001, 3000, 4001, 30000, 119999, 120001, 300000}[r.Intn(12)])}}
			case 2:
				return &sim.Step{Op: "to_deadline", A: []int64{int64(r.Intn(5)) - 2}}
			case 3:
				return &sim.Step{Op: "swap"}
			default:
				return &sim.Step{Op: "cancel"}
			}
		}
		round := specqbft.Round(0)
		for {
			s, ok := d.Next(gen)
			if !ok {
				break
			}
			switch s.Op {
			case "arm":
				if cancelled {
					// arming after cancellation leaves a goroutine with two ready select cases (done context,
					// expired timer): the runtime's choice is not seedable and the statement does not cover it
					continue
				}
				round += specqbft.Round(1 + s.Arg(0)%3)
				if round > 14 {
					round = 14
					continue
				}
				a := &arming{round: round, at: time.Now()}
				a.deadline = deadlineOf(role, slotStart, a.at, round)
				arms = append(arms, a)
				rt.TimeoutForRound(height, round)
				d.Logf("arm round=%d at=+%v deadline=+%v", round, a.at.Sub(t0), a.deadline.Sub(t0))
				if len(arms) > 1 && time.Now().Before(arms[len(arms)-2].deadline) {
					d.Fault("re-arm-before-expiry")
				}
				synctest.Wait()
			case "advance":
				time.Sleep(time.Duration(s.Arg(0)) * time.Millisecond)
				synctest.Wait()
			case "to_deadline":
				if len(arms) > 0 {
					target := arms[len(arms)-1].deadline.Add(time.Duration(s.Arg(0)) * time.Millisecond)
					if target.After(time.Now()) {
						time.Sleep(time.Until(target))
						d.Fault(fmt.Sprintf("advance-to-deadline%+dms", s.Arg(0)))
					}
					synctest.Wait()
				}
			case "burst":
				// A late operator: the deadline of round r has already passed when it is armed, and
				// round r+1 is armed right away, before the waiter of round r has run. The outcome in
				// a defective timer depends on the runtime's (unseedable) select choice, so the step
				// runs 16 independent trials on fresh timers and only their disjunction is logged.
				// Judged with one P only (the workers' setting): with several Ps the waiter can
				// legitimately run between the two armings.
				stale := 0
				for trial := 0; trial < 16 && runtime.GOMAXPROCS(0) == 1; trial++ {
					var seq atomic.Int64
					var bmu sync.Mutex
					type ev struct {
						round specqbft.Round
						seq   int64
					}
					var got []ev
					bctx, bcancel := context.WithCancel(context.Background())
					brt := roundtimer.New(bctx, net, role, func(r specqbft.Round) {
						bmu.Lock()
						got = append(got, ev{r, seq.Add(1)})
						bmu.Unlock()
					})
					r1 := specqbft.Round(s.Arg(0))
					past := height - 40 // every deadline of that slot is long gone
					brt.TimeoutForRound(past, r1)
					brt.TimeoutForRound(past, r1+1)
					armed2 := seq.Add(1)
					synctest.Wait()
					bmu.Lock()
					for _, e := range got {
						if e.round == r1 && e.seq > armed2 {
							stale++
						}
					}
					bmu.Unlock()
					bcancel()
					synctest.Wait()
				}
				d.Fault("burst-re-arm-after-expiry")
				d.Logf("burst round=%d stale=%v", s.Arg(0), stale > 0)
				if stale > 0 {
					d.Violate("stale-round-callback", "burst-re-arm", "round %d was armed after its deadline and round %d right after it; in at least one of 16 trials the callback still fired for round %d after round %d had been armed", s.Arg(0), s.Arg(0)+1, s.Arg(0), s.Arg(0)+1)
				}
			case "swap":
				curHandler++
				rt.OnTimeout(handler(curHandler))
				d.Fault("handler-swap")
			case "cancel":
				cancel()
				cancelled = true
				d.Fault("parent-context-cancelled")
				synctest.Wait()
			}
			judge()
			d.State("timer", s.Op, fmt.Sprintf("r%d cbs=%d cancelled=%v", round, judged, cancelled))
		}
		// let everything outstanding expire
		time.Sleep(40 * time.Minute)
		synctest.Wait()
		judge()
		if len(arms) > 0 && !cancelled && d.V == nil {
			last := arms[len(arms)-1]
			if last.fired == 0 {
				d.Probe("diag-last-arming-never-fired")
			} else {
				d.Probe("last-arming-fired-once")
			}
		}
		d.SimTime = time.Since(t0)
		if len(arms) >= 2 {
			d.Nontriv = true
		}
	})
}

// Scenario 1: timeout events at the controller. Events for a lower round, another height or a decided
// instance, and duplicates, must change nothing; the current-round event of an undecided instance
// advances the round, after which a second copy is stale.
func runTimerController(t *testing.T, d *sim.D) {
	w := newWorld(d, "C17", false)
	gen := func(r *sim.Rand) *sim.Step {
		if r.Chance(0.25) && len(w.d.Steps) > len(w.honestIdx) {
			return &sim.Step{Op: "tev", A: []int64{int64(w.honestIdx[r.Intn(len(w.honestIdx))]), int64(r.Weighted(4, 3, 3, 2)), int64(r.Intn(6))}}
		}
		return w.gen(r)
	}
	for {
		s, ok := d.Next(gen)
		if !ok {
			break
		}
		if s.Op != "tev" {
			w.exec(s)
			continue
		}
		nd := w.nodes[int(s.Arg(0))%w.n]
		inst := w.instOf(nd)
		if !nd.honest || inst == nil {
			continue
		}
		cur := inst.State.Round
		height, round, kind := w.height, cur, "current"
		switch s.Arg(1) {
		case 1:
			if cur <= 1 {
				continue
			}
			round, kind = specqbft.Round(1+s.Arg(2)%int64(cur-1)), "lower-round"
		case 2:
			height, kind = w.height+specqbft.Height(1+s.Arg(2)), "other-height"
			if s.Arg(2)%2 == 0 && w.height > 0 {
				height = w.height - 1
			}
		case 3:
			kind = "duplicate"
		}
		if inst.State.Decided {
			kind += "+decided"
		}
		fire := func() (string, string, int, int, error) {
			r0, _ := inst.State.GetRoot()
			c0, _ := nd.ctrl.GetRoot()
			data, _ := json.Marshal(ssvtypes.TimeoutData{Height: height, Round: round})
			var err error
			w.safely("OnTimeout", func() { err = nd.ctrl.OnTimeout(logger, ssvtypes.EventMsg{Type: ssvtypes.Timeout, Data: data}) })
			r1, _ := inst.State.GetRoot()
			c1, _ := nd.ctrl.GetRoot()
			return fmt.Sprintf("%x%x", r0, c0), fmt.Sprintf("%x%x", r1, c1), len(nd.net.out), len(nd.timer.armed), err
		}
		armedBefore := len(nd.timer.armed)
		before, after, sent, armed, _ := fire()
		w.d.Fault("timeout-event-" + kind)
		w.logf("timeout-event op=%d kind=%s height=%d round=%d (instance round %d) changed=%v sent=%d", nd.id, kind, height, round, cur, before != after, sent)
		mustBeInert := kind != "current" && kind != "duplicate"
		if kind == "duplicate" {
			// first copy may legitimately advance the round; the second copy is then for an earlier round
			nd.net.out = nil
			w.collect(nd)
			armedBefore = len(nd.timer.armed)
			before, after, sent, armed, _ = fire()
			mustBeInert = true
		}
		if mustBeInert && (before != after || sent != 0 || armed != armedBefore) {
			w.d.Violate("stale-timeout-event-had-effect", kind, "op%d: timeout event (%s: height %d round %d; instance height %d round %d decided=%v) changed state=%v, broadcast %d message(s), timer re-armed=%v", nd.id, kind, height, round, w.height, cur, inst.State.Decided, before != after, sent, armed != armedBefore)
		}
		if kind == "current" && int(cur) < 14 {
			if inst.State.Round != cur+1 {
				w.d.Violate("current-timeout-event-ignored", "current", "op%d: timeout event for the current round %d of an undecided instance did not advance the round (now %d)", nd.id, cur, inst.State.Round)
			}
			w.timeouts++
		}
		w.collect(nd)
		w.d.State(fmt.Sprint(nd.id), "tev-"+kind, w.absState())
	}
	// last act: every correct operator whose instance is still undecided starts the next height (the
	// controller force-stops the old instance, which stays stored) and then receives the timeout event
	// that was already queued for the old instance: nothing may change, nothing may be sent or re-armed
	for _, i := range w.honestIdx {
		nd := w.nodes[i]
		old := w.instOf(nd)
		if d.V != nil || old == nil || old.State.Decided {
			continue
		}
		w.collect(nd)
		var serr error
		w.safely("StartNewInstance", func() { serr = nd.ctrl.StartNewInstance(logger, w.height+1, w.values[nd.startVal]) })
		if serr != nil {
			continue
		}
		nd.net.out = nil
		armedBefore := len(nd.timer.armed)
		r0, _ := old.State.GetRoot()
		data, _ := json.Marshal(ssvtypes.TimeoutData{Height: w.height, Round: old.State.Round})
		w.safely("OnTimeout", func() { _ = nd.ctrl.OnTimeout(logger, ssvtypes.EventMsg{Type: ssvtypes.Timeout, Data: data}) })
		r1, _ := old.State.GetRoot()
		w.d.Fault("timeout-event-superseded-height")
		if r0 != r1 || len(nd.net.out) != 0 || len(nd.timer.armed) != armedBefore {
			w.d.Violate("stale-timeout-event-had-effect", "superseded-height", "op%d: timeout event for the force-stopped instance of height %d (round %d) after height %d was started changed its state=%v, broadcast %d message(s), timer re-armed=%v", nd.id, w.height, old.State.Round, w.height+1, r0 != r1, len(nd.net.out), len(nd.timer.armed) != armedBefore)
		}
		nd.net.out = nil
	}
	w.finishProbes()
	d.Nontriv = d.Nontriv || len(d.Steps) > 15
}

func runC17(t *testing.T, d *sim.D) {
	if d.Cfg.Get("scenario", 0) == 0 {
		runTimerScenario(t, d)
	} else {
		runTimerController(t, d)
	}
}

func init() {
	base := genConfig("C17")
	Specs["C17"] = &sim.Spec{Sim: "qbftsim", Run: runC17,
		GenConfig: func(r *sim.Rand, tier string) sim.Config {
			if r.Chance(0.75) {
				return sim.Config{"scenario": 0, "role": int64(r.Intn(5)), "slot0": int64(1000 + r.Intn(100000)), "offset_ms": int64(r.Intn(12000)),
					"slot_delta": int64(r.Weighted(6, 2, 1)) - int64(r.Intn(2)), "steps": int64(4 + r.Intn(16))}
			}
			c := base(r, tier)
			c["scenario"] = 1
			c["byz_mask"], c["w_byz"], c["p_script"] = 0, 0, 0
			c["steps"] = int64(30 + r.Intn(120))
			c["late_start"] = 1
			c["picky"] = -1
			return c
		},
		Real: []string{"protocol/v2/qbft/roundtimer.RoundTimer (New, TimeoutForRound, OnTimeout, RoundTimeout) for all five roles on the real beacon.Network arithmetic", "protocol/v2/qbft/controller.Controller.OnTimeout + instance.UponRoundTimeout"},
		Stub: []string{"clock (testing/synctest fake clock; real 2 s / 2 min rounds cost microseconds)", "timeout handler (recorder)", "transport/timer/store stubs of qbftsim in the controller scenario"},
		Rule: "scenario 0 (75%): seeded programs of arm(strictly increasing round, arbitrary spacing) / advance / advance to deadline +-2 ms / handler swap / parent-context cancel against the real RoundTimer in a synctest bubble, callbacks judged with fake timestamps (at most once per arming, only the latest armed round, not before the documented deadline); scenario 1: fault-free multi-operator consensus runs with stale (lower round), foreign-height, decided-instance and duplicate timeout events injected at Controller.OnTimeout. Non-trivial: >=2 armings, or >15 steps; distinct = hash of (op, round, callbacks so far) sequence.",
		Assumptions: []string{"deadline formula written from the documented rule (2 s x round up to round 8, then 2 min; base 1/3 or 2/3 slot; proposer relative to arming)", "callback after parent-context cancellation and late/never firing are diagnostics only (not in the statement)", "timeout events for a round above the current one are not judged"}}
}
