package qbftsim

import (
	"bytes"
	"fmt"
	"sort"
	"testing"

	specqbft "github.com/bloxapp/ssv-spec/qbft"
	spectypes "github.com/bloxapp/ssv-spec/types"

	"github.com/bloxapp/ssv/protocol/v2/qbft/instance"

	"verifharness/sim"
)

// C06: every honest operator is a pair (node instance.Instance, reference specqbft.Instance from the
// pinned ssv-spec). Every event is applied to both; outputs are compared after every event.

func (w *world) cmpOutputs(nd *node, what string, err1, err2 error, dec1, dec2 bool, val1, val2 []byte, agg1, agg2 *specqbft.SignedMessage) {
	d := w.d
	if nd.uncompared {
		nd.shadowNet.out = nil
		return
	}
	report := d.Violate
	if nd.decidedCompacted {
		// Known class (see known_findings.json): compaction of a decided instance clears containers
		// that are still counted. The divergence is recorded as a finding, this operator's pair is
		// not compared any further (the operator itself keeps running), all others still are.
		what += "+decided-compacted"
		report = func(inv, sig, format string, a ...any) {
			d.Finding(inv, sig, format, a...)
			nd.uncompared = true
			nd.shadowNet.out = nil
		}
	}
	if (err1 == nil) != (err2 == nil) {
		report("refinement-accept-mismatch", what, "op%d %s: node err=%v, reference err=%v", nd.id, what, err1, err2)
		return
	}
	if dec1 != dec2 || !bytes.Equal(val1, val2) {
		report("refinement-decision-mismatch", what, "op%d %s: node decided=%v/%s, reference decided=%v/%s", nd.id, what, dec1, valueName(w, val1), dec2, valueName(w, val2))
		return
	}
	if (agg1 == nil) != (agg2 == nil) {
		report("refinement-decision-mismatch", what, "op%d %s: aggregated commit present node=%v reference=%v", nd.id, what, agg1 != nil, agg2 != nil)
		return
	}
	if agg1 != nil {
		// the node sorts the signer list of the aggregated commit, the reference keeps arrival order;
		// the certificate is the same set of signers over the same message with the same aggregate
		// signature, so signer order is not part of "the same decision"
		c1, c2 := agg1.DeepCopy(), agg2.DeepCopy()
		sort.Slice(c1.Signers, func(i, j int) bool { return c1.Signers[i] < c1.Signers[j] })
		sort.Slice(c2.Signers, func(i, j int) bool { return c2.Signers[i] < c2.Signers[j] })
		b1, _ := c1.Encode()
		b2, _ := c2.Encode()
		if !bytes.Equal(b1, b2) {
			report("refinement-decision-mismatch", what, "op%d %s: aggregated commit differs (node signers %v, reference signers %v)", nd.id, what, agg1.Signers, agg2.Signers)
			return
		}
	}
	// broadcasts
	if len(nd.net.out) != len(nd.shadowNet.out) {
		report("refinement-broadcast-mismatch", what, "op%d %s: node broadcast %d message(s), reference %d", nd.id, what, len(nd.net.out), len(nd.shadowNet.out))
		return
	}
	for i := range nd.net.out {
		if !bytes.Equal(nd.net.out[i].Data, nd.shadowNet.out[i].Data) || nd.net.out[i].MsgID != nd.shadowNet.out[i].MsgID || nd.net.out[i].MsgType != nd.shadowNet.out[i].MsgType {
			a, b := &specqbft.SignedMessage{}, &specqbft.SignedMessage{}
			_ = a.Decode(nd.net.out[i].Data)
			_ = b.Decode(nd.shadowNet.out[i].Data)
			report("refinement-broadcast-mismatch", what, "op%d %s: broadcast %d differs: node %s, reference %s", nd.id, what, i, describe(w, a), describe(w, b))
			return
		}
	}
	nd.shadowNet.out = nil
	// timer arming
	if fmt.Sprint(nd.timer.armed) != fmt.Sprint(nd.shadowTimer.armed) {
		report("refinement-timer-mismatch", what, "op%d %s: node armed rounds %v, reference %v", nd.id, what, nd.timer.armed, nd.shadowTimer.armed)
		return
	}
	// protocol state
	s1, s2 := nd.inst.State, nd.shadow.State
	proj := func(s *specqbft.State) string {
		p := "nil"
		if s.ProposalAcceptedForCurrentRound != nil {
			b, _ := s.ProposalAcceptedForCurrentRound.Encode()
			p = fmt.Sprintf("%x", sha(b))
		}
		return fmt.Sprintf("round=%d height=%d lpr=%d lpv=%s proposal=%s decided=%v value=%s", s.Round, s.Height, s.LastPreparedRound, valueName(w, s.LastPreparedValue), p, s.Decided, valueName(w, s.DecidedValue))
	}
	if proj(s1) != proj(s2) {
		report("refinement-state-mismatch", what, "op%d %s: node state {%s}, reference state {%s}", nd.id, what, proj(s1), proj(s2))
		return
	}
	if !nd.compactOn {
		r1, e1 := s1.GetRoot()
		r2, e2 := s2.GetRoot()
		if e1 != nil || e2 != nil || r1 != r2 {
			report("refinement-state-mismatch", "root", "op%d %s: state roots differ (node %x, reference %x) although all outputs agreed", nd.id, what, r1[:4], r2[:4])
		}
	}
}

func sha(b []byte) []byte {
	h := [32]byte{}
	copy(h[:], b)
	if len(b) > 32 {
		for i, x := range b {
			h[i%32] ^= x
		}
	}
	return h[:6]
}

func (w *world) startPair(nd *node) {
	if nd.started || !nd.honest {
		return
	}
	nd.started = true
	v := w.values[nd.startVal]
	w.safely("Start", func() { nd.inst.Start(logger, v, w.height) })
	nd.shadow.Start(v, w.height)
	w.logf("start op=%d value=%s", nd.id, valueName(w, v))
	w.cmpOutputs(nd, "start", nil, nil, false, false, nil, nil, nil, nil)
	w.collect(nd)
	w.d.State(fmt.Sprint(nd.id), "start", w.absState())
}

func (w *world) deliverPair(raw []byte, desc string, id int, to *node) {
	if !to.honest {
		return
	}
	m1, m2 := &specqbft.SignedMessage{}, &specqbft.SignedMessage{}
	if m1.Decode(raw) != nil || m2.Decode(raw) != nil {
		return
	}
	var dec1, dec2 bool
	var v1, v2 []byte
	var a1, a2 *specqbft.SignedMessage
	var e1, e2 error
	panicked := true
	w.safely("ProcessMsg", func() { dec1, v1, a1, e1 = to.inst.ProcessMsg(logger, m1); panicked = false })
	func() {
		defer func() {
			if r := recover(); r != nil {
				e2 = fmt.Errorf("reference panicked: %v", r)
				if panicked {
					w.d.Probe("both-panicked")
				}
			}
		}()
		dec2, v2, a2, e2 = to.shadow.ProcessMsg(m2)
	}()
	if panicked && e2 == nil {
		w.d.Violate("refinement-accept-mismatch", "node-panic", "op%d: node panicked on %s, reference did not", to.id, desc)
		return
	}
	es := "ok"
	if e1 != nil {
		es = "err(" + e1.Error() + ")"
	}
	w.logf("deliver #%d %s -> op=%d %s decided=%v", id, desc, to.id, es, dec1)
	w.cmpOutputs(to, "process-"+kindOf(m1), e1, e2, dec1, dec2, v1, v2, a1, a2)
	// compaction exactly where BaseRunner.compactInstanceIfNeeded applies it: after every processed
	// round-change message (accepted or not) — decided messages never reach the instance
	if to.compactOn && m1.Message.MsgType == specqbft.RoundChangeMsgType {
		instance.Compact(to.inst.State, m1)
		w.d.Fault("compaction")
		if to.inst.State.Decided {
			w.d.Probe("compaction-after-decided")
			to.decidedCompacted = true
		}
	}
	w.collect(to)
	w.d.State(fmt.Sprint(to.id), "deliver", w.absState())
}

func kindOf(m *specqbft.SignedMessage) string {
	switch m.Message.MsgType {
	case specqbft.ProposalMsgType:
		return "proposal"
	case specqbft.PrepareMsgType:
		return "prepare"
	case specqbft.CommitMsgType:
		return "commit"
	case specqbft.RoundChangeMsgType:
		return "round-change"
	}
	return "other"
}

func (w *world) timeoutPair(nd *node) {
	if !nd.honest || !nd.started || nd.inst.State.Decided {
		return // Controller.OnTimeout never forwards a timeout to a decided instance
	}
	var e1, e2 error
	w.safely("UponRoundTimeout", func() { e1 = nd.inst.UponRoundTimeout(logger) })
	e2 = nd.shadow.UponRoundTimeout()
	w.d.Fault("round-timeout")
	w.logf("timeout op=%d -> round=%d err=%v", nd.id, nd.inst.State.Round, e1 != nil)
	w.cmpOutputs(nd, "timeout", e1, e2, nd.inst.State.Decided, nd.shadow.State.Decided, nd.inst.State.DecidedValue, nd.shadow.State.DecidedValue, nil, nil)
	w.collect(nd)
	w.d.State(fmt.Sprint(nd.id), "timeout", w.absState())
}

// mutate applies one single-field mutation to a copy of a pool message.
// A = [msg, to, field, sub]
func (w *world) mutate(s sim.Step) ([]byte, string) {
	m := int(s.Arg(0))
	if m < 0 || m >= len(w.pool) || w.pool[m].sm == nil {
		return nil, ""
	}
	sm := &specqbft.SignedMessage{}
	if sm.Decode(w.pool[m].raw) != nil {
		return nil, ""
	}
	r := sim.NewRand(uint64(s.Arg(3)))
	field := int(s.Arg(2)) % 10
	names := []string{"type", "height", "round", "root", "signers", "signature", "rc-justification", "prepare-justification", "full-data", "data-round"}
	switch field {
	case 0:
		sm.Message.MsgType = specqbft.MessageType(r.Intn(6))
	case 1:
		sm.Message.Height = specqbft.Height(int64(sm.Message.Height) + int64(r.Intn(5)) - 2)
	case 2:
		sm.Message.Round = specqbft.Round(r.Intn(int(sm.Message.Round) + 3))
	case 3:
		sm.Message.Root[r.Intn(32)] ^= 1 << uint(r.Intn(8))
	case 4:
		switch r.Intn(4) {
		case 0:
			sm.Signers = append(sm.Signers, spectypes.OperatorID(1+r.Intn(w.n+1)))
		case 1:
			sm.Signers = []spectypes.OperatorID{spectypes.OperatorID(r.Intn(w.n + 2))}
		case 2:
			sm.Signers = nil
		default:
			sm.Signers = append(sm.Signers, sm.Signers...)
		}
	case 5:
		if len(sm.Signature) > 0 {
			sm.Signature[r.Intn(len(sm.Signature))] ^= 1 << uint(r.Intn(8))
		}
	case 6, 7:
		j := &sm.Message.RoundChangeJustification
		if field == 7 {
			j = &sm.Message.PrepareJustification
		}
		switch r.Intn(4) {
		case 0:
			*j = nil
		case 1:
			if len(*j) > 0 {
				*j = (*j)[:len(*j)-1]
			}
		case 2:
			if len(*j) > 0 {
				(*j)[0] = append([]byte(nil), (*j)[0][:len((*j)[0])/2]...)
			}
		default:
			other := w.pool[r.Intn(len(w.pool))]
			*j = append(*j, other.raw)
		}
	case 8:
		switch r.Intn(3) {
		case 0:
			sm.FullData = nil
		case 1:
			sm.FullData = w.values[r.Intn(len(w.values))]
		default:
			sm.FullData = append([]byte("x"), sm.FullData...)
		}
	case 9:
		sm.Message.DataRound = specqbft.Round(r.Intn(5))
	}
	// half of the mutations are re-signed by the original single signer (a Byzantine operator could
	// do that for its own messages; for honest signers it models a protocol-level input the
	// signature check alone does not stop)
	if r.Chance(0.5) && len(sm.Signers) == 1 && sm.Signers[0] >= 1 && int(sm.Signers[0]) <= w.n && field != 5 {
		sm.Signature = w.signAs(sm.Signers[0], &sm.Message).Signature
		names[field] += "+resigned"
	}
	raw, err := sm.Encode()
	if err != nil {
		return nil, ""
	}
	w.d.Fault("mutation-" + names[field])
	return raw, "mutated[" + names[field] + "] " + describe(w, sm)
}

func (w *world) genC06(r *sim.Rand) *sim.Step {
	if len(w.plan) > 0 {
		s := w.plan[0]
		w.plan = w.plan[1:]
		return &s
	}
	cfg := w.d.Cfg
	for _, i := range w.honestIdx {
		if !w.nodes[i].started {
			return &sim.Step{Op: "start", A: []int64{int64(i)}}
		}
	}
	if len(w.d.Steps) >= int(cfg.Get("steps", 100)) {
		return nil
	}
	pl := w.pendingList()
	wd, wt, wb, wr, wm := int(cfg.Get("w_deliver", 60)), int(cfg.Get("w_timeout", 5)), int(cfg.Get("w_byz", 10)), int(cfg.Get("w_redeliver", 2))+2, int(cfg.Get("mutate", 5))
	if len(pl) == 0 {
		wd = 0
		wt += 10
	}
	if len(w.byzIdx) == 0 {
		wb = 0
	}
	if len(w.pool) == 0 {
		wr, wm = 0, 0
	}
	switch r.Weighted(wd, wt, wb, wr, wm) {
	case 0:
		k := r.Intn(len(pl))
		if r.Chance(0.6) {
			k = r.Intn(1 + len(pl)/4)
		}
		return &sim.Step{Op: "deliver", A: []int64{int64(pl[k].msg), int64(pl[k].to)}}
	case 1:
		if r.Chance(0.4) {
			for _, i := range w.honestIdx {
				if r.Chance(0.8) {
					w.plan = append(w.plan, sim.Step{Op: "timeout", A: []int64{int64(i)}})
				}
			}
			if len(w.plan) > 0 {
				return w.genC06(r)
			}
		}
		return &sim.Step{Op: "timeout", A: []int64{int64(w.honestIdx[r.Intn(len(w.honestIdx))])}}
	case 2:
		return w.genByz(r)
	case 3:
		return &sim.Step{Op: "deliver", A: []int64{int64(r.Intn(len(w.pool))), int64(w.honestIdx[r.Intn(len(w.honestIdx))])}}
	default:
		return &sim.Step{Op: "mut", A: []int64{int64(r.Intn(len(w.pool))), int64(w.honestIdx[r.Intn(len(w.honestIdx))]), int64(r.Intn(10)), int64(r.U64() >> 1)}}
	}
}

func runC06(t *testing.T, d *sim.D) {
	w := newWorld(d, "C06", true)
	for {
		s, ok := d.Next(w.genC06)
		if !ok {
			break
		}
		switch s.Op {
		case "start":
			w.startPair(w.nodes[int(s.Arg(0))%w.n])
		case "deliver":
			m, to := int(s.Arg(0)), int(s.Arg(1))%w.n
			if m >= 0 && m < len(w.pool) && w.pool[m].sm != nil {
				if w.pending[pend{m, to}] {
					delete(w.pending, pend{m, to})
				} else {
					d.Fault("duplicate-or-late-redelivery")
				}
				w.deliverPair(w.pool[m].raw, w.pool[m].desc, m, w.nodes[to])
			}
		case "timeout":
			w.timeoutPair(w.nodes[int(s.Arg(0))%w.n])
		case "byz":
			sm, from, rec := w.byzBuild(s)
			if sm == nil {
				continue
			}
			if raw, err := sm.Encode(); err == nil {
				d.Fault("byz-message")
				w.addToPool(from, true, raw, rec)
			}
		case "mut":
			if raw, desc := w.mutate(s); raw != nil {
				w.deliverPair(raw, desc, -1, w.nodes[int(s.Arg(1))%w.n])
			}
		}
	}
	w.finishProbes()
}

func init() {
	Specs["C06"] = &sim.Spec{Sim: "qbftsim", GenConfig: genConfig("C06"), Run: runC06,
		Real:        []string{"protocol/v2/qbft/instance.Instance (NewInstance, Start, ProcessMsg, UponRoundTimeout, Compact)", "reference: github.com/bloxapp/ssv-spec qbft.Instance at the version pinned in /repo/go.mod", "BLS signing/verification with the spec test key sets"},
		Stub:        []string{"transport (capture), round timers (recording), value check (validity bit), Byzantine operators and message mutator"},
		Rule:        "instance-level multi-operator runs: every honest operator is a (node instance, reference instance) pair fed the same starts, deliveries (any order, duplicates, late), timeouts, Byzantine grammar messages and single-field mutations (type, height, round, root, signers, signature, justifications, full data, data round; half re-signed). After every event: error-vs-nil, broadcast bytes, decided flag/value, aggregated commit bytes, timer armings and protocol-state projection must agree; without compaction also State.GetRoot(). With compaction (half of the runs) instance.Compact is applied exactly where BaseRunner.compactInstanceIfNeeded applies it (after every processed round-change message). Non-trivial/distinct as C01.",
		Assumptions: []string{"the pinned ssv-spec instance is the reference", "compaction points = after every round-change message handed to the instance (decided messages are handled by the controller and never reach the instance)"}}
}
