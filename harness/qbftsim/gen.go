package qbftsim

import (
	"fmt"
	"sort"
	"testing"

	specqbft "github.com/bloxapp/ssv-spec/qbft"
	spectypes "github.com/bloxapp/ssv-spec/types"

	"github.com/bloxapp/ssv/protocol/v2/qbft/instance"

	"verifharness/sim"
)

func genConfig(prop string) func(r *sim.Rand, tier string) sim.Config {
	return func(r *sim.Rand, tier string) sim.Config {
		n := []int{4, 4, 4, 7, 7}[r.Intn(5)]
		if r.Intn(10) == 0 {
			n = []int{10, 13}[r.Intn(2)]
		}
		f := (n - 1) / 3
		b := r.Intn(f + 1)
		if prop == "C01" || prop == "C02" {
			if r.Chance(0.7) {
				b = f
			}
		}
		// which operators are Byzantine
		mask := int64(0)
		for _, i := range r.Perm(n)[:b] {
			mask |= 1 << uint(i)
		}
		sv := int64(0)
		same := r.Chance(0.3)
		for i := 0; i < n; i++ {
			v := int64(r.Intn(3))
			if same {
				v = 0
			}
			sv |= v << uint(2*i)
		}
		c := sim.Config{"n": int64(n), "byz_mask": mask, "height": int64(r.Intn(2 * n)), "start_vals": sv,
			"steps": int64(60 + r.Intn(340)), "full_node": int64(r.Intn(2)),
			"w_deliver": int64(50 + r.Intn(50)), "w_timeout": int64(r.Weighted(3, 2, 2, 1, 1, 1)), "w_byz": int64(3 + r.Intn(20)), "w_redeliver": int64(r.Intn(4)), "p_script": int64(r.Intn(4)),
			"late_start": int64(r.Intn(4)),                // 0: some operators start late
			"picky":      int64(r.Intn(3*n)) - int64(2*n), // >=0: that operator's own value check also rejects value 2
			"script":     int64(r.Intn(6)),
		}
		if n >= 10 {
			c["steps"] = int64(60 + r.Intn(200))
		}
		if b == 0 {
			c["w_byz"] = 0
		}
		if prop == "C07" {
			c["steps"] = int64(r.Intn(220))
			if b == 0 && r.Chance(0.15) {
				c["steps"] = 0 // fault-free synchronous case
			}
			c["late_start"] = 1
			c["w_timeout"] = int64(r.Intn(8))
			c["picky"] = -1 // liveness is stated for values every correct operator accepts
		}
		if prop == "C06" {
			c["compact"] = int64(r.Intn(2))
			c["mutate"] = int64(r.Intn(20))
			c["late_start"] = 1
		}
		return c
	}
}

// gen produces the next step of the adversarial prefix, looking at the simulator state.
func (w *world) gen(r *sim.Rand) *sim.Step {
	if len(w.plan) > 0 {
		s := w.plan[0]
		w.plan = w.plan[1:]
		return &s
	}
	cfg := w.d.Cfg
	// start phase
	var unstarted []int
	for _, i := range w.honestIdx {
		if !w.nodes[i].started {
			unstarted = append(unstarted, i)
		}
	}
	if len(unstarted) > 0 && (cfg.Get("late_start", 1) != 0 || len(unstarted) > len(w.honestIdx)/2 || r.Chance(0.15)) {
		return &sim.Step{Op: "start", A: []int64{int64(unstarted[r.Intn(len(unstarted))])}}
	}
	if len(w.d.Steps) >= int(cfg.Get("steps", 100))+len(w.honestIdx) {
		return nil
	}
	pl := w.pendingList()
	allDecided := true
	for _, i := range w.honestIdx {
		if inst := w.instOf(w.nodes[i]); inst == nil || !inst.State.Decided {
			allDecided = false
		}
	}
	if allDecided && len(pl) == 0 && (len(w.byzIdx) == 0 || r.Chance(0.2)) {
		return nil
	}
	// scripted multi-step patterns, now and then
	if len(w.byzIdx) > 0 && r.Chance(float64(cfg.Get("p_script", 1))/100) {
		w.script(r)
		if len(w.plan) > 0 {
			return w.gen(r)
		}
	}
	wd, wt, wb, wr := int(cfg.Get("w_deliver", 60)), int(cfg.Get("w_timeout", 5)), int(cfg.Get("w_byz", 10)), int(cfg.Get("w_redeliver", 2))
	if len(pl) == 0 {
		wd = 0
		wt += 10
	}
	if len(w.pool) == 0 {
		wr = 0
	}
	switch r.Weighted(wd, wt, wb, wr) {
	case 0:
		// deliver: mostly oldest-first with jitter, sometimes any
		k := r.Intn(len(pl))
		if r.Chance(0.6) {
			k = r.Intn(1 + len(pl)/4)
		}
		return &sim.Step{Op: "deliver", A: []int64{int64(pl[k].msg), int64(pl[k].to)}}
	case 1:
		if r.Chance(0.3) { // timeout wave
			for _, i := range w.honestIdx {
				if r.Chance(0.8) {
					w.plan = append(w.plan, sim.Step{Op: "timeout", A: []int64{int64(i)}})
				}
			}
			if len(w.plan) > 0 {
				return w.gen(r)
			}
		}
		return &sim.Step{Op: "timeout", A: []int64{int64(w.honestIdx[r.Intn(len(w.honestIdx))])}}
	case 2:
		return w.genByz(r)
	default:
		m := r.Intn(len(w.pool))
		return &sim.Step{Op: "deliver", A: []int64{int64(m), int64(w.honestIdx[r.Intn(len(w.honestIdx))])}}
	}
}

func (w *world) curRound() int64 {
	var mx specqbft.Round = 1
	for _, i := range w.honestIdx {
		if inst := w.instOf(w.nodes[i]); inst != nil && inst.State.Round > mx {
			mx = inst.State.Round
		}
	}
	return int64(mx)
}

func (w *world) genByz(r *sim.Rand) *sim.Step {
	round := w.curRound() - 1 + int64(r.Weighted(1, 6, 2, 1)) - 1 // stored as round-1 (byzBuild adds 1)
	if round < 0 {
		round = 0
	}
	if r.Chance(0.08) { // far-away rounds
		round = int64(r.Intn(17))
	}
	forge := int64(0)
	if w.prop == "C02" && r.Chance(0.45) || r.Chance(0.05) {
		forge = int64(1 + r.Intn(nForge-1))
	}
	tmpl := int64(r.Weighted(3, 3, 3, 3, 2))
	if w.prop == "C02" && r.Chance(0.4) {
		tmpl = tDecided
	}
	mask := int64(0)
	if r.Chance(0.6) {
		mask = int64(1 + r.Intn(1<<uint(len(w.honestIdx))-1))
	}
	pr := int64(0)
	if r.Chance(0.5) {
		pr = 1 + int64(r.Intn(int(round)+1))
	}
	mode := int64(0)
	if r.Chance(0.15) {
		mode = int64(1 + r.Intn(6))
	}
	return &sim.Step{Op: "byz", A: []int64{int64(r.Intn(len(w.byzIdx))), tmpl, round, int64(r.Weighted(4, 4, 2, 1, 1)), pr, mask, int64(r.U64() >> 1), forge, mode}}
}

// script pushes a multi-step Byzantine pattern onto the plan.
func (w *world) script(r *sim.Rand) {
	round := w.curRound()
	h := len(w.honestIdx)
	half := int64(1<<uint(h/2) - 1)
	other := int64(1<<uint(h)-1) &^ half
	if r.Chance(0.5) {
		half, other = other, half
	}
	bz := func(from, tmpl int, rd, val, pr, mask int64) sim.Step {
		return sim.Step{Op: "byz", A: []int64{int64(from), int64(tmpl), rd - 1, val, pr, mask, int64(r.U64() >> 1), 0}}
	}
	if r.Chance(0.5) {
		w.attack(r)
		return
	}
	switch r.Intn(5) {
	case 4: // one faulty operator announces two far rounds (around the cut-off) to one correct operator:
		// f+1 DISTINCT signers are needed to pull an operator forward, two messages of one signer are not
		w.d.Probe("script-far-round-pair")
		far := int64(12 + r.Intn(5))
		one := int64(1) << uint(r.Intn(h))
		for from := range w.byzIdx {
			w.plan = append(w.plan, bz(from, tRoundChange, far, 0, 0, one), bz(from, tRoundChange, far+1, 0, 0, one))
		}
	case 0: // split-brain equivocation: value 0 to one half, value 1 to the other, through all phases
		w.d.Probe("script-split-brain")
		for from := range w.byzIdx {
			for _, t := range []int{tProposal, tPrepare, tCommit} {
				w.plan = append(w.plan, bz(from, t, round, 0, 0, half), bz(from, t, round, 1, 0, other))
			}
		}
	case 1: // lock stealing: round-changes that hide / claim prepared values, then a proposal for another value
		w.d.Probe("script-lock-steal")
		for from := range w.byzIdx {
			w.plan = append(w.plan, bz(from, tRoundChange, round+1, 1, 0, 0))
		}
		for _, i := range w.honestIdx {
			w.plan = append(w.plan, sim.Step{Op: "timeout", A: []int64{int64(i)}})
		}
		for from := range w.byzIdx {
			w.plan = append(w.plan, bz(from, tProposal, round+1, 1, 0, 0), bz(from, tPrepare, round+1, 1, 0, 0), bz(from, tCommit, round+1, 1, 0, 0))
		}
	case 2: // commit withholding then decided to a subset
		w.d.Probe("script-withhold-decided")
		for from := range w.byzIdx {
			w.plan = append(w.plan, bz(from, tPrepare, round, int64(r.Intn(2)), 0, 0), bz(from, tCommit, round, int64(r.Intn(2)), 0, half), bz(from, tDecided, round, int64(r.Intn(2)), 0, other))
		}
	default: // claimed prepared value in a round-change with fabricated justification
		w.d.Probe("script-false-prepared-claim")
		for from := range w.byzIdx {
			w.plan = append(w.plan, bz(from, tRoundChange, round+1, int64(r.Intn(3)), round, 0), bz(from, tProposal, round+1, int64(r.Intn(3)), round, 0))
		}
	}
}

// attack plans a directed multi-round attack: isolate some honest operators, let the others
// progress with Byzantine help, release commits to a subset only, time everybody else out and
// have the Byzantine operators propose / vote for another value in the next round.
func (w *world) attack(r *sim.Rand) {
	w.d.Probe("script-directed-attack")
	h := len(w.honestIdx)
	all := int64(1<<uint(h) - 1)
	iso := int64(0)
	for k := 0; k < h; k++ {
		if r.Chance(0.3) {
			iso |= 1 << uint(k)
		}
	}
	non := all &^ iso
	if non == 0 {
		non, iso = all, 0
	}
	sub := int64(0)
	for k := 0; k < h; k++ {
		if non&(1<<uint(k)) != 0 && r.Chance(0.4) {
			sub |= 1 << uint(k)
		}
	}
	if sub == 0 {
		sub = non & -non
	}
	round := w.curRound()
	// value currently on the table: the latest honest proposal, else value 0
	val := int64(0)
	for i := len(w.pool) - 1; i >= 0; i-- {
		if m := w.pool[i].sm; m != nil && m.Message.MsgType == specqbft.ProposalMsgType {
			for vi, v := range w.values {
				if string(v) == string(m.FullData) {
					val = int64(vi)
				}
			}
			break
		}
	}
	other := (val + 1 + int64(r.Intn(2))) % 3
	bz := func(from, tmpl int, rd, v, pr, mask, mode int64) sim.Step {
		return sim.Step{Op: "byz", A: []int64{int64(from), int64(tmpl), rd - 1, v, pr, mask, int64(r.U64() >> 1), 0, mode}}
	}
	skip := int64(0)
	if r.Chance(0.7) {
		skip = 1
	}
	fl := func(mask int64) sim.Step { return sim.Step{Op: "flush", A: []int64{mask, 400, skip}} }
	p := []sim.Step{fl(non)}
	if r.Chance(0.3) { // Byzantine leader equivocates in this round first
		for from := range w.byzIdx {
			p = append(p, bz(from, tProposal, round, val, 0, non, 2))
		}
		p = append(p, fl(non))
	}
	for from := range w.byzIdx {
		p = append(p, bz(from, tPrepare, round, val, 0, non, 0))
	}
	p = append(p, fl(non))
	for from := range w.byzIdx {
		p = append(p, bz(from, tCommit, round, val, 0, sub, 0))
	}
	p = append(p, fl(non))
	if r.Chance(0.4) { // operators that accepted the proposal but are a commit short get the certificate with other data attached
		for from := range w.byzIdx {
			p = append(p, bz(from, tDecided, round, val, 0, all&^sub, 6))
		}
	}
	for _, i := range w.honestIdx {
		p = append(p, sim.Step{Op: "timeout", A: []int64{int64(i)}})
	}
	p = append(p, fl(all))
	next := round + 1
	mode := int64(1 + r.Intn(6))
	for from := range w.byzIdx {
		p = append(p, bz(from, tRoundChange, next, other, 0, all, 0))
	}
	p = append(p, fl(all))
	for from := range w.byzIdx {
		p = append(p, bz(from, tProposal, next, other, 0, all, mode))
	}
	p = append(p, fl(all))
	for from := range w.byzIdx {
		p = append(p, bz(from, tPrepare, next, other, 0, all, 0))
	}
	p = append(p, fl(all))
	for from := range w.byzIdx {
		p = append(p, bz(from, tCommit, next, other, 0, all, 0))
	}
	p = append(p, fl(all))
	w.plan = append(w.plan, p...)
}

func (w *world) exec(s sim.Step) {
	switch s.Op {
	case "start":
		w.start(w.nodes[int(s.Arg(0))%w.n])
	case "deliver":
		m, to := int(s.Arg(0)), int(s.Arg(1))%w.n
		if m >= 0 && m < len(w.pool) {
			w.deliver(w.pool[m], w.nodes[to])
		}
	case "timeout":
		w.timeout(w.nodes[int(s.Arg(0))%w.n])
	case "flush":
		// deliver everything pending for the operators in the mask (bit k = k-th honest operator),
		// oldest first, including what those deliveries produce, up to a bound
		mask, max, skipDecided := s.Arg(0), int(s.Arg(1)), s.Arg(2) == 1
		for it := 0; it < max; it++ {
			var next *pend
			for _, p := range w.pendingList() {
				if m := w.pool[p.msg].sm; skipDecided && m != nil && len(m.Signers) > 1 {
					continue // the network delays aggregated (decided) messages
				}
				for k, i := range w.honestIdx {
					if i == p.to && (mask == 0 || mask&(1<<uint(k)) != 0) {
						q := p
						next = &q
					}
				}
				if next != nil {
					break
				}
			}
			if next == nil {
				break
			}
			w.deliver(w.pool[next.msg], w.nodes[next.to])
			if w.d.V != nil {
				return
			}
		}
	case "byz":
		sm, from, rec := w.byzBuild(s)
		if sm == nil {
			return
		}
		raw, err := sm.Encode()
		if err != nil {
			return
		}
		w.d.Fault("byz-message")
		w.addToPool(from, true, raw, rec)
	}
}

func runPrefix(d *sim.D, prop string) *world {
	w := newWorld(d, prop, false)
	for {
		s, ok := d.Next(w.gen)
		if !ok {
			break
		}
		w.exec(s)
	}
	return w
}

func (w *world) finishProbes() {
	d := w.d
	dec := 0
	for _, i := range w.honestIdx {
		if inst := w.instOf(w.nodes[i]); inst != nil && inst.State.Decided {
			dec++
		}
	}
	if dec > 0 {
		d.Probe("some-honest-decided")
	}
	if dec == len(w.honestIdx) {
		d.Probe("all-honest-decided")
	}
	if w.maxRound >= 2 {
		d.Probe("round>=2-reached")
	}
	if w.maxRound >= 3 {
		d.Probe("round>=3-reached")
	}
	for _, pm := range w.pool {
		if !pm.byz && pm.sm != nil && pm.sm.Message.MsgType == specqbft.ProposalMsgType && pm.sm.Message.Round > 1 {
			d.Probe("honest-justified-proposal-round>1")
			if len(pm.sm.Message.PrepareJustification) > 0 {
				d.Probe("honest-proposal-with-prepared-value")
			}
		}
		if !pm.byz && pm.sm != nil && pm.sm.Message.MsgType == specqbft.RoundChangeMsgType && pm.sm.Message.DataRound != 0 {
			d.Probe("honest-prepared-round-change")
		}
	}
	if len(d.Steps) >= 20 && (dec > 0 || w.maxRound >= 2) {
		d.Nontriv = true
	}
}

func runC01(t *testing.T, d *sim.D) {
	w := runPrefix(d, "C01")
	w.checkAgreement()
	w.finishProbes()
}

func runC02(t *testing.T, d *sim.D) {
	w := runPrefix(d, "C02")
	for _, i := range w.honestIdx {
		w.checkSaves(w.nodes[i])
	}
	w.finishProbes()
}

// ---- C07: adversarial prefix, then faults stop and a synchronous continuation must decide.

const nOrderings = 22

// continuation: deliver everything pending among correct operators (ordering k), and when nothing
// is pending and someone is undecided, fire the timeouts of all undecided correct operators.
// Returns (all decided, timeout rounds used).
// contDeliveries: deliveries made in the continuations of the current run, all orderings together. A run
// whose continuations need more than the cap (large committees whose every proposal is refused: each
// round-change then costs hundreds of signature checks) is discarded instead of running for minutes.
var contDeliveries int

const contDeliveryCap = 9000

func (w *world) continuation(k int, shuffle *sim.Rand) (bool, int) {
	// timeout policy: real round deadlines are absolute (measured from the duty's slot start), so an
	// operator in a lower round reaches its deadline first: the first half of the orderings fire only the operators in
	// the lowest round (they catch up), the second half fire all undecided operators at once.
	minRoundOnly := k < nOrderings/2
	k = k % (nOrderings / 2)
	rounds := 0
	budget := w.f + 3
	for _, i := range w.honestIdx { // every correct operator takes part
		w.start(w.nodes[i])
	}
	// "f+3 further rounds" are counted from the highest round a correct operator has reached: a single
	// correct operator that timed out alone several times is a reachable state, and the others can only
	// catch up one timeout at a time (one message is below the f+1 needed to jump). Catching up is not
	// charged (false alarm of the thorough tier: 5 solitary timeouts, then f+3 = 4 waves were too few).
	hi, lo := specqbft.Round(0), specqbft.Round(1<<30)
	for _, i := range w.honestIdx {
		if inst := w.instOf(w.nodes[i]); inst != nil && !inst.State.Decided {
			if inst.State.Round > hi {
				hi = inst.State.Round
			}
			if inst.State.Round < lo {
				lo = inst.State.Round
			}
		}
	}
	if hi > lo {
		budget += int(hi - lo)
	}
	for iter := 0; iter < 4000; iter++ {
		pl := w.pendingList()
		// Byzantine operators went silent: their undelivered messages are never delivered
		var cand []pend
		for _, p := range pl {
			if !w.pool[p.msg].byz {
				cand = append(cand, p)
			}
		}
		if len(cand) > 0 {
			w.order(cand, k, shuffle)
			p := cand[0]
			if contDeliveries++; contDeliveries > contDeliveryCap {
				return false, -1 // the run's total continuation work is used up (counted, not timed)
			}
			w.deliver(w.pool[p.msg], w.nodes[p.to])
			continue
		}
		undec := 0
		for _, i := range w.honestIdx {
			if inst := w.instOf(w.nodes[i]); inst == nil || !inst.State.Decided {
				undec++
			}
		}
		if undec == 0 {
			return true, rounds
		}
		if rounds >= budget {
			return false, rounds
		}
		rounds++
		fired := false
		lowest := specqbft.Round(1 << 30)
		for _, i := range w.honestIdx {
			if inst := w.instOf(w.nodes[i]); inst != nil && !inst.State.Decided && inst.State.Round < lowest {
				lowest = inst.State.Round
			}
		}
		for _, i := range w.honestIdx {
			nd := w.nodes[i]
			if inst := w.instOf(nd); inst != nil && !inst.State.Decided && int(inst.State.Round) < instance.CutoffRound-1 {
				if minRoundOnly && inst.State.Round != lowest {
					continue
				}
				fired = w.timeout(nd) || fired
			}
		}
		if !fired {
			return false, rounds
		}
	}
	w.d.Probe("diag-continuation-delivery-bound-reached")
	return false, rounds
}

// order sorts candidate deliveries for continuation ordering k (pure function of k and state).
func (w *world) order(c []pend, k int, shuffle *sim.Rand) {
	key := func(p pend) (int, int, int) {
		m := w.pool[p.msg]
		prepared := 0
		if m.sm != nil && m.sm.Message.MsgType == specqbft.RoundChangeMsgType && m.sm.Message.DataRound != 0 {
			prepared = 1
		}
		own := 0
		if int(m.from) == p.to+1 {
			own = 1
		}
		switch k {
		case 0:
			return p.msg, p.to, 0
		case 1:
			return int(m.from), p.msg, p.to
		case 2:
			return -int(m.from), p.msg, p.to
		case 3:
			return prepared, p.msg, p.to
		case 4:
			return -prepared, p.msg, p.to
		case 5:
			return own, p.msg, p.to
		case 6, 7:
			// round-changes in ascending order of their prepared round: the one that completes a leader's
			// quorum then carries the highest prepared value (the leader takes the value to propose from
			// the completing message); 7 = the recipient's own messages first
			dr := 0
			if m.sm != nil && m.sm.Message.MsgType == specqbft.RoundChangeMsgType {
				dr = int(m.sm.Message.DataRound) + 1
			}
			if k == 7 {
				return 1 - own, dr, p.msg
			}
			return dr, p.msg, p.to
		default:
			return 0, 0, 0
		}
	}
	if k >= 8 {
		for i := len(c) - 1; i > 0; i-- {
			j := shuffle.Intn(i + 1)
			c[i], c[j] = c[j], c[i]
		}
		return
	}
	sort.SliceStable(c, func(i, j int) bool {
		a1, a2, a3 := key(c[i])
		b1, b2, b3 := key(c[j])
		if a1 != b1 {
			return a1 < b1
		}
		if a2 != b2 {
			return a2 < b2
		}
		return a3 < b3
	})
}

func runC07(t *testing.T, d *sim.D) {
	w := runPrefix(d, "C07")
	if d.V != nil {
		return
	}
	// deterministic side condition (a): fault-free, in-order, no timeouts -> everyone decides in round 1
	// on the round-1 leader's start value
	faultFree := len(w.byzIdx) == 0 && d.Cfg.Get("steps", 1) == 0
	prefix := append([]sim.Step(nil), d.Steps...)
	var tried []string
	var last *world
	contDeliveries = 0
	for k := 0; k < nOrderings; k++ {
		cw := w
		if k > 0 {
			// rebuild the same prefix state silently, then try another ordering
			d2 := sim.NewReplayD(d.Prop, d.Tier, d.Seed, d.Cfg, prefix)
			cw = newWorld(d2, "C07", false)
			cw.quiet = true
			for {
				s, ok := d2.Next(nil)
				if !ok {
					break
				}
				cw.exec(s)
			}
			cw.d = d
			d.Probe("continuation-retry")
		}
		cw.inContinuation = true
		last = cw
		ok, rounds := cw.continuation(k, sim.NewRand(d.Seed^uint64(k)*7919))
		if rounds < 0 {
			d.Discard = "continuation work cap reached"
			return
		}
		tried = append(tried, fmt.Sprintf("ordering%d:decided=%v,rounds=%d", k, ok, rounds))
		if ok {
			d.Logf("continuation ordering=%d decided after %d timeout rounds", k, rounds)
			d.Probe(fmt.Sprintf("continuation-rounds-%d", rounds))
			// agreement along the continuation
			var ref []byte
			for _, i := range cw.honestIdx {
				v := cw.instOf(cw.nodes[i]).State.DecidedValue
				if ref == nil {
					ref = v
				} else if string(ref) != string(v) {
					d.Violate("continuation-disagreement", "values", "correct operators decided different values in the continuation")
				}
			}
			if faultFree && k == 0 {
				d.Probe("fault-free-synchronous-run")
				leader := specqbft.RoundRobinProposer(&specqbft.State{Height: cw.height, Share: cw.nodes[0].share}, 1)
				want := cw.values[cw.nodes[int(leader)-1].startVal]
				for _, i := range cw.honestIdx {
					inst := cw.instOf(cw.nodes[i])
					if rounds != 0 || inst.State.Round != 1 || string(inst.State.DecidedValue) != string(want) {
						d.Violate("fault-free-not-round-1", "happy-path", "fault-free synchronous run: op%d decided %s in round %d, expected leader op%d's value %s in round 1", cw.nodes[i].id, valueName(cw, inst.State.DecidedValue), inst.State.Round, leader, valueName(cw, want))
					}
				}
			}
			w.finishProbes()
			d.Nontriv = d.Nontriv || len(d.Steps) >= 10
			return
		}
	}
	// a recognisable cause gets its own signature: some correct operators decided ONLY through a decided
	// message handed to them (they never held a quorum of single commits, so they never broadcast a
	// decided message themselves), decided instances take no part in later rounds, and the remaining
	// correct operators are fewer than a quorum
	if last != nil {
		// cause 1: two correct operators hold prepared values with different roots. With the faulty members
		// silent every quorum consists of all correct operators, so every round-change quorum contains both,
		// and isProposalJustification checks EVERY prepared round-change against the hash of the proposed
		// value ("H(data) != root"): no proposal can ever be justified again.
		roots := map[string]spectypes.OperatorID{}
		allUndecided := true
		for _, i := range last.honestIdx {
			nd := last.nodes[i]
			inst := last.instOf(nd)
			if inst == nil {
				continue
			}
			if inst.State.Decided {
				allUndecided = false
			} else if inst.State.LastPreparedRound != 0 && len(inst.State.LastPreparedValue) > 0 {
				roots[string(inst.State.LastPreparedValue)] = nd.id
			}
		}
		if allUndecided && len(roots) >= 2 {
			var who []string
			for v, id := range roots {
				who = append(who, fmt.Sprintf("op%d:%s", id, valueName(last, []byte(v))))
			}
			sort.Strings(who)
			d.Finding("no-terminating-continuation", "stuck/correct-operators-prepared-on-different-values", "correct operators hold prepared values with different roots (%v): every round-change quorum of the correct operators contains both, and a proposal is only accepted if every prepared round-change in its justification hashes to the proposed value, so no leader can propose any more (tried %v)", who, tried)
			return
		}
		var undecided, byCert []spectypes.OperatorID
		own := 0
		for _, i := range last.honestIdx {
			nd := last.nodes[i]
			inst := last.instOf(nd)
			if inst == nil || !inst.State.Decided {
				undecided = append(undecided, nd.id)
				continue
			}
			singles := map[spectypes.OperatorID]bool{}
			for _, m := range inst.State.CommitContainer.AllMessaged() {
				if len(m.Signers) == 1 {
					singles[m.Signers[0]] = true
				}
			}
			if len(singles) < last.quorum() {
				byCert = append(byCert, nd.id)
			} else {
				own++
			}
		}
		if len(undecided) > 0 && len(undecided) < last.quorum() && len(byCert) > 0 && own == 0 {
			d.Finding("no-terminating-continuation", "left-behind/others-decided-only-by-received-certificate", "operators %v can never decide: operators %v decided only through a decided message handed to them by a Byzantine member (no commit quorum of their own, so no decided broadcast of their own), decided instances take no part in later rounds, and %d undecided correct operator(s) are below the quorum of %d (tried %v)", undecided, byCert, len(undecided), last.quorum(), tried)
			return
		}
	}
	d.Violate("no-terminating-continuation", "all-orderings", "after faults stopped no synchronous continuation let all correct operators decide within f+3=%d timeout rounds (%v)", w.f+3, tried)
}

var commonReal = []string{"protocol/v2/qbft/controller.Controller (StartNewInstance, ProcessMsg, UponDecided, OnTimeout)", "protocol/v2/qbft/instance.Instance (proposal/prepare/commit/round-change/timeout)", "ssv-spec message types, MsgContainer, RoundRobinProposer", "BLS signing and verification (herumi) with the real share keys of the spec test key sets"}
var commonStub = []string{"transport (capture-only network; every broadcast is a pending event owned by the scheduler)", "round timer (recording stub; expiry is a scheduler step, a superset of real timing)", "QBFTStore back end (in-memory map recording every save)", "value check (validity bit in the value)", "Byzantine operators (puppets emitting grammar-generated, correctly signed or forged messages)"}

var Specs = map[string]*sim.Spec{
	"C01": {Sim: "qbftsim", GenConfig: genConfig("C01"), Run: runC01, Real: commonReal, Stub: commonStub,
		Rule:        "seeded schedules over N in {4,7,10,13} operators with b<=f Byzantine puppets: deliver/duplicate/late-redeliver any message to any operator, fire any armed round timeout, late starts, Byzantine sends from the grammar {proposal,prepare,commit,round-change,decided} x round x value x justification subset x recipient subset, plus scripted split-brain / lock-steal / withhold patterns. Non-trivial = >=20 steps and (someone decided or round>=2 reached); distinct = hash of the sequence of (actor, step kind, per-operator (round, prepared round, prepared value, proposal accepted, decided)).",
		Assumptions: []string{"at most f of 3f+1 operators are Byzantine", "Byzantine operators cannot forge honest operators' BLS signatures", "timeouts may fire at any moment (superset of real timing)"}},
	"C02": {Sim: "qbftsim", GenConfig: genConfig("C02"), Run: runC02, Real: commonReal, Stub: commonStub,
		Rule:        "as C01, with 45% of Byzantine sends forged (bad signature, foreign/zero/duplicate signer, root mismatch, wrong height/identifier, sub-quorum padded signer list, garbage type) and 40% aggregated-commit (decided) templates; every decision reported by Controller.ProcessMsg and every instance handed to the store is judged by an independent certificate verifier. Non-trivial/distinct as C01.",
		Assumptions: []string{"independent verifier trusts herumi FastAggregateVerify and ssv-spec ComputeSigningRoot", "locally reached decisions are observed at controller level (runner-level saves are exercised by runnersim)"}},
	"C07": {Sim: "qbftsim", GenConfig: genConfig("C07"), Run: runC07, Real: commonReal, Stub: commonStub,
		Rule:        "adversarial prefix of random length as C01 (b<=f silent or equivocating), then faults stop: Byzantine operators silent, in-flight messages among correct operators flushed, synchronous rounds with simultaneous timeouts; all correct operators must decide within f+3 timeout rounds beyond the highest round a correct operator had reached (laggards catching up to it are not charged); up to 22 continuations (11 delivery orderings x 2 timeout policies) are tried before a violation is reported. Side conditions: fault-free in-order run decides in round 1 on the leader's value; every timeout before the cut-off bumps the round, clears the proposal, re-arms the timer and broadcasts a round-change.",
		Assumptions: []string{"partial synchrony: loss between correct operators in the prefix is unbounded delay", "existential continuation is searched over 18 continuations only (another might succeed): calibrated on the unchanged tree"}},
}
