package valsim

import (
	"crypto/sha256"
	"encoding/binary"

	spectypes "github.com/bloxapp/ssv-spec/types"

	"github.com/bloxapp/ssv/network/commons"
)

// ---- sender side (what an operator does before publishing)

func topicOf(pk []byte) string { return commons.GetTopicFullName(commons.ValidatorTopicID(pk)[0]) }

// envelope wraps the encoded SSVMessage as the sender would at the current fake time: signed by the
// operator's RSA key once signed envelopes are active, bare before. op = 1-based index into the RSA keys.
func (w *world) envelope(payload []byte, op int, claimedID uint64) []byte {
	if !w.forkActive() {
		return payload
	}
	return w.signedEnvelope(payload, op, claimedID)
}

func (w *world) signedEnvelope(payload []byte, op int, claimedID uint64) []byte {
	if op < 1 || op > len(rsaPriv) {
		op = 1
	}
	h := sha256.Sum256(payload)
	k := string(h[:]) + string(rune(op))
	sig := w.sigMemo[k]
	if sig == nil {
		var err error
		if sig, err = rsaPriv[op-1].Sign(payload); err != nil {
			panic(err)
		}
		w.sigMemo[k] = sig
	}
	return commons.EncodeSignedSSVMessage(payload, claimedID, sig)
}

// ---- raw SSZ writers without the limit checks of the generated encoders (Byzantine sender)

func u64(b []byte, v uint64) []byte { return binary.LittleEndian.AppendUint64(b, v) }
func u32(b []byte, v int) []byte    { return binary.LittleEndian.AppendUint32(b, uint32(v)) }

func fit(b []byte, n int) []byte { // exactly n bytes (fixed-size SSZ fields)
	o := make([]byte, n)
	copy(o, b)
	return o
}

func rawList(items [][]byte) []byte {
	var b, tail []byte
	off := 4 * len(items)
	for _, it := range items {
		b = u32(b, off+len(tail))
		tail = append(tail, it...)
	}
	return append(b, tail...)
}

// rawMsg mirrors specqbft.Message.
type rawMsg struct {
	typ, height, round, dataRound uint64
	id                            []byte
	root                          []byte
	rcj, pj                       [][]byte
}

func (m rawMsg) bytes() []byte {
	rcj, pj := rawList(m.rcj), rawList(m.pj)
	b := u64(u64(u64(nil, m.typ), m.height), m.round)
	off := 76
	b = u32(b, off)
	off += len(m.id)
	b = append(b, fit(m.root, 32)...)
	b = u64(b, m.dataRound)
	b = u32(b, off)
	off += len(rcj)
	b = u32(b, off)
	b = append(b, m.id...)
	b = append(b, rcj...)
	return append(b, pj...)
}

func rawSigned(sig []byte, signers []uint64, msg []byte, full []byte) []byte {
	b := append([]byte(nil), fit(sig, 96)...)
	off := 108
	b = u32(b, off)
	off += 8 * len(signers)
	b = u32(b, off)
	off += len(msg)
	b = u32(b, off)
	for _, s := range signers {
		b = u64(b, s)
	}
	b = append(b, msg...)
	return append(b, full...)
}

func rawSSV(msgType uint64, id []byte, data []byte) []byte {
	b := u64(nil, msgType)
	b = append(b, fit(id, 56)...)
	b = u32(b, 68)
	return append(b, data...)
}

// rawPS mirrors spectypes.PartialSignatureMessage; rawPartial mirrors SignedPartialSignatureMessage.
type rawPS struct {
	sig, root []byte
	signer    uint64
}

func rawPartial(typ, slot uint64, msgs []rawPS, sig []byte, signer uint64) []byte {
	inner := u64(u64(nil, typ), slot)
	inner = u32(inner, 20)
	for _, m := range msgs {
		inner = append(inner, fit(m.sig, 96)...)
		inner = append(inner, fit(m.root, 32)...)
		inner = u64(inner, m.signer)
	}
	b := u32(nil, 108)
	b = append(b, fit(sig, 96)...)
	b = u64(b, signer)
	return append(b, inner...)
}

func msgID(domain spectypes.DomainType, pk []byte, role uint64) []byte {
	b := append([]byte(nil), domain[:]...)
	b = append(b, fit(pk, 48)...)
	return binary.LittleEndian.AppendUint32(b, uint32(role))
}
