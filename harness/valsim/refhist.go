package valsim

import (
	"bytes"
	"fmt"

	specqbft "github.com/bloxapp/ssv-spec/qbft"
)

// signerRec: what one signer already had accepted for one (validator, role), consensus messages only.
type signerRec struct {
	slot, round uint64
	count       [4]int // proposal, prepare, commit, round-change (single-signer messages) in (slot, round)
	proposal    []byte
	seen        bool
}

func (r *reference) rec(p *parsed, signer uint64, create bool) *signerRec {
	k := fmt.Sprintf("%x/%d/%d", p.val.pk, p.role, signer)
	s := r.hist[k]
	if s == nil && create {
		s = &signerRec{}
		r.hist[k] = s
	}
	return s
}

// historyBroken: the per-signer limits of the statement for a consensus message.
func (r *reference) historyBroken(p *parsed) []string {
	var out []string
	sm := p.cons
	h, rd, t := uint64(sm.Message.Height), uint64(sm.Message.Round), int(sm.Message.MsgType)
	for _, s := range sm.Signers {
		rec := r.rec(p, s, false)
		if rec == nil || !rec.seen {
			continue
		}
		switch {
		case h < rec.slot:
			out = append(out, "history-slot-back")
		case h == rec.slot && rd < rec.round:
			out = append(out, "history-round-back")
		case h == rec.slot && rd == rec.round && len(sm.Signers) == 1 && t >= 0 && t < 4:
			if rec.count[t] >= 1 {
				out = append(out, "history-one-"+[...]string{"proposal", "prepare", "commit", "round-change"}[t]+"-per-round")
			}
			if sm.Message.MsgType == specqbft.ProposalMsgType && rec.proposal != nil && !bytes.Equal(rec.proposal, sm.FullData) {
				out = append(out, "history-second-proposal-different-data")
			}
		}
	}
	return out
}

// record updates the reference's history with an ACCEPTED consensus message (whatever the verdict of
// the reference was: the record is of what the network has been told is valid).
func (r *reference) record(p *parsed) {
	if p == nil || p.cons == nil || p.val == nil {
		return
	}
	sm := p.cons
	h, rd, t := uint64(sm.Message.Height), uint64(sm.Message.Round), int(sm.Message.MsgType)
	for _, s := range sm.Signers {
		rec := r.rec(p, s, true)
		if !rec.seen || h > rec.slot || (h == rec.slot && rd > rec.round) {
			*rec = signerRec{slot: h, round: rd, seen: true}
		}
		if h == rec.slot && rd == rec.round && len(sm.Signers) == 1 && t >= 0 && t < 4 {
			rec.count[t]++
			if sm.Message.MsgType == specqbft.ProposalMsgType && rec.proposal == nil {
				rec.proposal = append([]byte{}, sm.FullData...)
			}
		}
	}
}

// histState renders the record of a (validator, role) for d.State.
func (r *reference) histSummary() string {
	return fmt.Sprintf("signers=%d", len(r.hist))
}

func (p *parsed) slot() uint64 {
	switch {
	case p.cons != nil:
		return uint64(p.cons.Message.Height)
	case p.part != nil:
		return uint64(p.part.Message.Slot)
	}
	return 0
}
