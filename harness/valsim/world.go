// Package valsim: the real message validator of /repo (message/validation) in a synctest bubble with
// real node storage, duty store and operator RSA keys, fed by real QBFT controllers (honest traffic)
// and by a Byzantine input generator. Serves C08 (no crash) and C09 (no rule-breaking accept).
package valsim

import (
	"fmt"
	"os"
	"sync"
	"time"

	eth2apiv1 "github.com/attestantio/go-eth2-client/api/v1"
	"github.com/attestantio/go-eth2-client/spec/phase0"
	spectypes "github.com/bloxapp/ssv-spec/types"
	"github.com/bloxapp/ssv-spec/types/testingutils"
	"github.com/ethereum/go-ethereum/common"
	"github.com/herumi/bls-eth-go-binary/bls"
	"go.uber.org/zap"
	"go.uber.org/zap/zapcore"

	"github.com/bloxapp/ssv/message/validation"
	"github.com/bloxapp/ssv/networkconfig"
	operatordatastore "github.com/bloxapp/ssv/operator/datastore"
	"github.com/bloxapp/ssv/operator/duties/dutystore"
	"github.com/bloxapp/ssv/operator/keys"
	nodestorage "github.com/bloxapp/ssv/operator/storage"
	beaconprotocol "github.com/bloxapp/ssv/protocol/v2/blockchain/beacon"
	ssvtypes "github.com/bloxapp/ssv/protocol/v2/types"
	registrystorage "github.com/bloxapp/ssv/registry/storage"

	"verifharness/sim"
)

var logger = zap.NewNop()

const (
	maxOps        = 13
	strangerOp    = 14 // registered operator that is in no committee
	unregisteredK = 14 // index of the RSA key that is registered nowhere
)

var (
	onceKeys sync.Once
	ksBy     = map[int]*testingutils.TestKeySet{}
	rsaPriv  []keys.OperatorPrivateKey
	rsaPub   [][]byte
	extraPK  [][]byte // BLS public keys of the validators without a key set
)

func loadKeys() {
	onceKeys.Do(func() {
		spectypes.InitBLS()
		ksBy[4], ksBy[7] = testingutils.Testing4SharesSet(), testingutils.Testing7SharesSet()
		ksBy[10], ksBy[13] = testingutils.Testing10SharesSet(), testingutils.Testing13SharesSet()
		for _, s := range rsaPrivB64 {
			k, err := keys.PrivateKeyFromString(s)
			if err != nil {
				panic(err)
			}
			p, err := k.Public().Base64()
			if err != nil {
				panic(err)
			}
			rsaPriv, rsaPub = append(rsaPriv, k), append(rsaPub, p)
		}
		for i := 1; i <= 8; i++ {
			sk := &bls.SecretKey{}
			if err := sk.SetHexString(fmt.Sprintf("%064x", 0x1234500+i)); err != nil {
				panic(err)
			}
			extraPK = append(extraPK, sk.GetPublicKey().Serialize())
		}
	})
}

// valInfo is one validator of the world. eligible = known, active, not liquidated (statement of C09).
type valInfo struct {
	kind     string
	pk       []byte
	n        int
	ks       *testingutils.TestKeySet
	share    *ssvtypes.SSVShare
	index    phase0.ValidatorIndex
	eligible bool
}

type world struct {
	d      *sim.D
	prop   string
	netCfg networkconfig.NetworkConfig
	ns     nodestorage.Storage
	duties *dutystore.Store
	mv     validation.MessageValidator
	vals   []*valInfo
	slot0  phase0.Slot

	ctrls         map[ckey]*committee
	queue         []*hmsg // honest messages broadcast and not yet gossiped
	honest        []*hmsg // honest messages already gossiped (mutation sources)
	sigMemo       map[string][]byte
	fdb           *sim.FaultDB
	lastConsOrder []*hmsg
	lastCons      map[string]*hmsg // (validator, role, signer) -> last accepted single-signer consensus message
	ref           *reference
	calls         int
	nAcc          int // honest messages accepted so far
}

func (w *world) now() time.Time { return time.Now() } // fake clock of the bubble

func (w *world) curSlot() phase0.Slot { return w.netCfg.Beacon.EstimatedSlotAtTime(w.now().Unix()) }

func (w *world) curEpoch() phase0.Epoch { return w.netCfg.Beacon.EstimatedEpochAtSlot(w.curSlot()) }

func (w *world) forkActive() bool { return w.curEpoch() > w.netCfg.PermissionlessActivationEpoch }

func (w *world) sleepUntil(t time.Time) {
	if d := t.Sub(w.now()); d > 0 {
		time.Sleep(d)
	}
	w.d.SimTime = w.now().Sub(w.netCfg.Beacon.GetSlotStartTime(w.slot0))
}

func mkShare(ks *testingutils.TestKeySet, pk []byte, meta *beaconprotocol.ValidatorMetadata, liquidated bool) *ssvtypes.SSVShare {
	sh := testingutils.TestingShare(ks)
	cp := *sh
	cp.ValidatorPubKey = append([]byte(nil), pk...)
	return &ssvtypes.SSVShare{Share: cp, Metadata: ssvtypes.Metadata{BeaconMetadata: meta, Liquidated: liquidated}}
}

// newWorld must be called inside the bubble.
func newWorld(d *sim.D, prop string) *world {
	loadKeys()
	cfg := d.Cfg
	w := &world{d: d, prop: prop, ctrls: map[ckey]*committee{}, sigMemo: map[string][]byte{}, lastCons: map[string]*hmsg{}}
	w.netCfg = networkconfig.TestNetwork
	w.slot0 = phase0.Slot(cfg.Get("start_epoch", 1000))*32 + phase0.Slot(cfg.Get("start_off", 0)%32)
	switch cfg.Get("fork", 0) {
	case 0:
		w.netCfg.PermissionlessActivationEpoch = 1 << 40 // signed envelopes never active
	case 1:
		w.netCfg.PermissionlessActivationEpoch = 0 // always active
	default:
		w.netCfg.PermissionlessActivationEpoch = phase0.Epoch(cfg.Get("start_epoch", 1000)) // activates at the next epoch
	}
	time.Sleep(time.Until(w.netCfg.Beacon.GetSlotStartTime(w.slot0)))

	var err error
	w.fdb = sim.NewFaultDB(sim.NewMemDB()) // no faults armed: the wrapper only offers the yield point of pair.go
	if w.ns, err = nodestorage.NewNodeStorage(logger, w.fdb); err != nil {
		panic(err)
	}
	for id := 1; id <= strangerOp; id++ {
		if _, err := w.ns.SaveOperatorData(nil, &registrystorage.OperatorData{ID: uint64(id), PublicKey: rsaPub[id-1], OwnerAddress: common.Address{byte(id)}}); err != nil {
			panic(err)
		}
	}
	active := func(i int) *beaconprotocol.ValidatorMetadata {
		return &beaconprotocol.ValidatorMetadata{Status: eth2apiv1.ValidatorStateActiveOngoing, Index: phase0.ValidatorIndex(100 + i)}
	}
	big := int(cfg.Get("big_n", 10))
	add := func(kind string, ks *testingutils.TestKeySet, pk []byte, meta *beaconprotocol.ValidatorMetadata, liq, reg bool) {
		v := &valInfo{kind: kind, pk: pk, n: len(ks.Shares), ks: ks, index: phase0.ValidatorIndex(100 + len(w.vals))}
		if meta != nil {
			v.index = meta.Index
		}
		if reg {
			v.share = mkShare(ks, pk, meta, liq)
			if err := w.ns.Shares().Save(nil, v.share); err != nil {
				panic(err)
			}
		}
		v.eligible = reg && !liq && meta != nil && meta.Status == eth2apiv1.ValidatorStateActiveOngoing
		w.vals = append(w.vals, v)
	}
	add("active4", ksBy[4], ksBy[4].ValidatorPK.Serialize(), active(0), false, true)
	add("active7", ksBy[7], extraPK[5], active(1), false, true) // the spec key sets share one validator key
	add("activeBig", ksBy[big], extraPK[6], active(2), false, true)
	add("active4b", ksBy[4], extraPK[0], active(3), false, true)
	add("liquidated", ksBy[4], extraPK[1], active(4), true, true)
	add("nometa", ksBy[4], extraPK[2], nil, false, true)
	add("exited", ksBy[4], extraPK[3], &beaconprotocol.ValidatorMetadata{Status: eth2apiv1.ValidatorStateExitedUnslashed, Index: 106}, false, true)
	add("unknown", ksBy[4], extraPK[4], active(7), false, false)

	w.duties = dutystore.New()
	if cfg.Get("sync_duty", 1) == 1 {
		for _, v := range w.vals[:3] {
			for p := uint64(0); p < 3; p++ {
				period := w.netCfg.Beacon.EstimatedSyncCommitteePeriodAtEpoch(w.netCfg.Beacon.EstimatedEpochAtSlot(w.slot0)) + p
				w.duties.SyncCommittee.Add(period, v.index, &eth2apiv1.SyncCommitteeDuty{ValidatorIndex: v.index}, true)
			}
		}
	}
	opts := []validation.Option{validation.WithNodeStorage(w.ns), validation.WithDutyStore(w.duties)}
	if own := cfg.Get("own_op", 0); own > 0 {
		opts = append(opts, validation.WithOwnOperatorID(operatordatastore.New(&registrystorage.OperatorData{ID: uint64(own), PublicKey: rsaPub[own-1]})))
	}
	if d.KeepLog { // verbose replay: print the validator's own reason for every reject / ignore (stdout only, not the event log)
		enc := zapcore.NewConsoleEncoder(zapcore.EncoderConfig{MessageKey: "m"})
		opts = append(opts, validation.WithLogger(zap.New(zapcore.NewCore(enc, zapcore.AddSync(os.Stdout), zapcore.DebugLevel))))
	}
	w.mv = validation.NewMessageValidator(w.netCfg, opts...)
	w.ref = newReference(w)
	return w
}
