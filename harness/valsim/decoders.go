package valsim

import (
	"bytes"
	"encoding/hex"
	"fmt"
	"sync"
	"time"

	spectypes "github.com/bloxapp/ssv-spec/types"
	"github.com/libp2p/go-libp2p/core/crypto"
	"github.com/libp2p/go-libp2p/core/peer"

	"github.com/bloxapp/ssv/network/commons"
	"github.com/bloxapp/ssv/network/records"
	"github.com/bloxapp/ssv/protocol/v2/ssv/queue"

	"verifharness/sim"
)

func (w *world) directStep2(ssvType uint64, mid, data []byte, desc string) {
	m := &spectypes.SSVMessage{MsgType: spectypes.MsgType(ssvType), Data: data}
	copy(m.MsgID[:], mid)
	w.d.Logf("direct field %s -> %s", desc, w.direct(m))
}

// ---- standalone decoders: seeded input mutation, nothing more (there is no schedule in them).

var (
	corpusOnce sync.Once
	corpus     [][]byte // valid encodings the mutator starts from
)

func decoderCorpus() [][]byte {
	corpusOnce.Do(func() {
		sk, _, err := crypto.GenerateEd25519Key(bytes.NewReader(bytes.Repeat([]byte{7}, 64)))
		if err != nil {
			panic(err)
		}
		pid, _ := peer.IDFromPrivateKey(sk)
		ni := records.NewNodeInfo("jato-v2")
		ni.Metadata = &records.NodeMetadata{NodeVersion: "v1.2.3", ExecutionNode: "geth/x", ConsensusNode: "lighthouse/y", Subnets: records.AllSubnets}
		sealedNI, err := ni.Seal(sk)
		if err != nil {
			panic(err)
		}
		rawNI, _ := ni.MarshalRecord()
		sni := &records.SignedNodeInfo{NodeInfo: ni, HandshakeData: records.HandshakeData{SenderPeerID: pid, RecipientPeerID: pid,
			Timestamp: time.Unix(1700000000, 0), SenderPublicKey: []byte("LS0tLS1CRUdJTiBSU0EgUFVCTElDIEtFWS0tLS0t")}, Signature: bytes.Repeat([]byte{3}, 256)}
		sealedSNI, err := sni.Seal(sk)
		if err != nil {
			panic(err)
		}
		rawSNI, _ := sni.MarshalRecord()
		corpus = [][]byte{sealedNI, rawNI, sealedSNI, rawSNI, []byte(records.AllSubnets), []byte("0x" + records.ZeroSubnets),
			[]byte(`{"Entries":["","x","{\"NodeVersion\":\"v\",\"Subnets\":\"ff\"}"]}`), []byte(`{"Entries":[]}`), []byte(`{"Entries":null}`)}
	})
	return corpus
}

var decoderNames = []string{"commons.DecodeSignedSSVMessage", "commons.DecodeNetworkMsg", "queue.DecodeSSVMessage", "SignedNodeInfo.Consume",
	"SignedNodeInfo.UnmarshalRecord", "NodeInfo.Consume", "NodeInfo.UnmarshalRecord", "Subnets.FromString", "NodeMetadata.Decode"}

// decStep: A = [decoder, source, op, pos, val, rounds]; S[0] = hex of seeded random bytes (source 0).
// source 1 = corpus entry, source 2 = a gossiped honest message (payload / wire), each byte-mutated `rounds` times.
func (w *world) decStep(s sim.Step) {
	which := int(s.Arg(0)) % len(decoderNames)
	var b []byte
	switch s.Arg(1) % 3 {
	case 0:
		b, _ = hex.DecodeString(s.Str(0))
	case 1:
		c := decoderCorpus()
		b = append([]byte(nil), c[int(s.Arg(3))%len(c)]...)
	default:
		if len(w.honest) == 0 {
			return
		}
		h := w.honest[int(s.Arg(3))%len(w.honest)]
		b = append([]byte(nil), h.payload...)
		if s.Arg(4)%2 == 1 {
			b = append([]byte(nil), w.signedEnvelope(h.payload, int(h.from), h.from)...)
		}
	}
	if s.Arg(1)%3 != 0 {
		for i := int64(0); i < s.Arg(5)%4; i++ {
			b = mutateBytes(b, s.Arg(2)+i, s.Arg(3)*(i+1)+s.Arg(4), s.Arg(4)+i)
		}
	}
	var err error
	ok := w.guarded(decoderNames[which], b, "", func() {
		switch which {
		case 0:
			_, _, _, err = commons.DecodeSignedSSVMessage(b)
		case 1:
			_, err = commons.DecodeNetworkMsg(b)
		case 2:
			m := &spectypes.SSVMessage{MsgType: spectypes.MsgType(s.Arg(4) % 3), Data: b}
			if s.Arg(4)%7 == 6 {
				m.MsgType = 200
			}
			_, err = queue.DecodeSSVMessage(m)
		case 3:
			err = (&records.SignedNodeInfo{}).Consume(b)
		case 4:
			err = (&records.SignedNodeInfo{}).UnmarshalRecord(b)
		case 5:
			err = (&records.NodeInfo{}).Consume(b)
		case 6:
			err = (&records.NodeInfo{}).UnmarshalRecord(b)
		case 7:
			_, err = records.Subnets{}.FromString(string(b))
		case 8:
			err = (&records.NodeMetadata{}).Decode(b)
		}
	})
	w.d.Fault("decoder-input-mutation")
	w.d.Logf("dec %s src=%d len=%d ok=%v err=%v", decoderNames[which], s.Arg(1)%3, len(b), ok, err != nil)
	w.d.Probe(fmt.Sprintf("dec:%d:err=%v", which, err != nil))
}

var _ = sim.St
