package valsim

import (
	"crypto/sha256"
	"encoding/json"
	"fmt"
	"time"

	eth2apiv1 "github.com/attestantio/go-eth2-client/api/v1"
	"github.com/attestantio/go-eth2-client/spec/phase0"
	specqbft "github.com/bloxapp/ssv-spec/qbft"
	spectypes "github.com/bloxapp/ssv-spec/types"
	"github.com/bloxapp/ssv-spec/types/testingutils"

	"github.com/bloxapp/ssv/protocol/v2/qbft"
	"github.com/bloxapp/ssv/protocol/v2/qbft/controller"
	"github.com/bloxapp/ssv/protocol/v2/qbft/roundtimer"
	ssvtypes "github.com/bloxapp/ssv/protocol/v2/types"
)

var roles = []spectypes.BeaconRole{spectypes.BNRoleAttester, spectypes.BNRoleAggregator, spectypes.BNRoleProposer,
	spectypes.BNRoleSyncCommittee, spectypes.BNRoleSyncCommitteeContribution, spectypes.BNRoleValidatorRegistration, spectypes.BNRoleVoluntaryExit}

const nConsensusRoles = 5

type ckey struct {
	v    int
	role spectypes.BeaconRole
}

type capNet struct{ out []*spectypes.SSVMessage }

func (c *capNet) Broadcast(m *spectypes.SSVMessage) error { c.out = append(c.out, m); return nil }

type nopTimer struct{}

func (nopTimer) TimeoutForRound(specqbft.Height, specqbft.Round) {}

// committee = the N real controllers of one (validator, role): the honest traffic source.
type committee struct {
	vi     int
	role   spectypes.BeaconRole
	id     spectypes.MessageID
	ctrls  []*controller.Controller
	nets   []*capNet
	height specqbft.Height
	live   bool
}

// hmsg is one honest broadcast.
type hmsg struct {
	vi      int
	role    spectypes.BeaconRole
	from    spectypes.OperatorID
	ssv     *spectypes.SSVMessage
	payload []byte // encoded SSVMessage = what a signed envelope signs
	kind    string
}

func (w *world) committeeOf(vi int, role spectypes.BeaconRole) *committee {
	k := ckey{vi, role}
	if c := w.ctrls[k]; c != nil {
		return c
	}
	v := w.vals[vi]
	c := &committee{vi: vi, role: role, id: spectypes.NewMsgID(w.netCfg.Domain, v.pk, role)}
	for i := 1; i <= v.n; i++ {
		net := &capNet{}
		sh := &spectypes.Share{OperatorID: uint64(i), ValidatorPubKey: v.pk, SharePubKey: v.ks.Shares[uint64(i)].GetPublicKey().Serialize(),
			DomainType: w.netCfg.Domain, Quorum: v.ks.Threshold, PartialQuorum: v.ks.PartialThreshold, Committee: v.ks.Committee()}
		cfg := &qbft.Config{Signer: testingutils.NewTestingKeyManager(), SigningPK: sh.SharePubKey, Domain: w.netCfg.Domain,
			ValueCheckF: func([]byte) error { return nil }, ProposerF: specqbft.RoundRobinProposer, Storage: newMemStore(),
			Network: net, Timer: nopTimer{}, SignatureVerification: false}
		c.ctrls = append(c.ctrls, controller.NewController(c.id[:], sh, cfg, false))
		c.nets = append(c.nets, net)
	}
	w.ctrls[k] = c
	return c
}

func kindOf(m *spectypes.SSVMessage) string {
	if m.MsgType == spectypes.SSVPartialSignatureMsgType {
		return "partial"
	}
	sm := &specqbft.SignedMessage{}
	if sm.Decode(m.Data) != nil {
		return "?"
	}
	if len(sm.Signers) > 1 {
		return "decided"
	}
	return [...]string{"proposal", "prepare", "commit", "rc"}[int(sm.Message.MsgType)%4]
}

func (w *world) enqueue(vi int, role spectypes.BeaconRole, from spectypes.OperatorID, m *spectypes.SSVMessage) {
	p, err := m.Encode()
	if err != nil {
		return
	}
	w.queue = append(w.queue, &hmsg{vi: vi, role: role, from: from, ssv: m, payload: p, kind: kindOf(m)})
}

func (w *world) collect(c *committee) {
	for i, n := range c.nets {
		for _, m := range n.out {
			w.enqueue(c.vi, c.role, uint64(i+1), m)
		}
		n.out = nil
	}
}

// duty starts a consensus instance (height = current slot) at every operator of the committee.
func (w *world) duty(vi int, ri int, val int64) {
	vi, ri = vi%4, ri%nConsensusRoles // only the eligible validators have honest committees
	role, slot := roles[ri], w.curSlot()
	c := w.committeeOf(vi, role)
	if c.live && c.height >= specqbft.Height(slot) {
		return
	}
	if role == spectypes.BNRoleProposer && w.d.Cfg.Get("prop_duty", 1) == 1 {
		w.duties.Proposer.Add(w.netCfg.Beacon.EstimatedEpochAtSlot(slot), slot, w.vals[vi].index, &eth2apiv1.ProposerDuty{Slot: slot, ValidatorIndex: w.vals[vi].index}, true)
	}
	c.height, c.live = specqbft.Height(slot), true
	value := []byte(fmt.Sprintf("value-%d-%d-%d", vi, slot, val%3))
	for _, ct := range c.ctrls {
		_ = ct.StartNewInstance(logger, c.height, value)
	}
	w.collect(c)
	w.d.Logf("duty v=%d role=%s slot=+%d queued=%d", vi, role, slot-w.slot0, len(w.queue))
}

// timeoutStep lets the round timer of the masked operators expire (after the real timeout has passed).
func (w *world) timeoutStep(vi, ri int, mask int64) {
	c := w.ctrls[ckey{vi % 4, roles[ri%nConsensusRoles]}]
	if c == nil || !c.live {
		return
	}
	inst := c.ctrls[0].StoredInstances.FindInstance(c.height)
	if inst == nil {
		return
	}
	to := roundtimer.QuickTimeout
	if inst.State.Round > roundtimer.QuickTimeoutThreshold {
		to = roundtimer.SlowTimeout
	}
	time.Sleep(to)
	fired := 0
	for i, ct := range c.ctrls {
		if mask != 0 && mask&(1<<uint(i)) == 0 {
			continue
		}
		in := ct.StoredInstances.FindInstance(c.height)
		if in == nil {
			continue
		}
		data, _ := json.Marshal(ssvtypes.TimeoutData{Height: c.height, Round: in.State.Round})
		if ct.OnTimeout(logger, ssvtypes.EventMsg{Type: ssvtypes.Timeout, Data: data}) == nil {
			fired++
		}
	}
	w.collect(c)
	w.d.Fault("round-timeout")
	w.d.Logf("timeout v=%d role=%s fired=%d queued=%d", c.vi, c.role, fired, len(w.queue))
}

// deliver hands a gossiped honest consensus message to every operator of its committee.
func (w *world) deliver(h *hmsg) {
	c := w.ctrls[ckey{h.vi, h.role}]
	if c == nil || h.ssv.MsgType != spectypes.SSVConsensusMsgType {
		return
	}
	for _, ct := range c.ctrls {
		sm := &specqbft.SignedMessage{}
		if sm.Decode(h.ssv.Data) != nil {
			return
		}
		_, _ = ct.ProcessMsg(logger, sm)
	}
	w.collect(c)
}

var partialTypeOf = map[spectypes.BeaconRole][2]spectypes.PartialSigMsgType{ // [pre, post]
	spectypes.BNRoleAttester:                  {spectypes.PostConsensusPartialSig, spectypes.PostConsensusPartialSig},
	spectypes.BNRoleAggregator:                {spectypes.SelectionProofPartialSig, spectypes.PostConsensusPartialSig},
	spectypes.BNRoleProposer:                  {spectypes.RandaoPartialSig, spectypes.PostConsensusPartialSig},
	spectypes.BNRoleSyncCommittee:             {spectypes.PostConsensusPartialSig, spectypes.PostConsensusPartialSig},
	spectypes.BNRoleSyncCommitteeContribution: {spectypes.ContributionProofs, spectypes.PostConsensusPartialSig},
	spectypes.BNRoleValidatorRegistration:     {spectypes.ValidatorRegistrationPartialSig, spectypes.ValidatorRegistrationPartialSig},
	spectypes.BNRoleVoluntaryExit:             {spectypes.VoluntaryExitPartialSig, spectypes.VoluntaryExitPartialSig},
}

// buildPartial builds a partial-signature message as a runner would (real BLS share signatures).
func (w *world) buildPartial(vi int, role spectypes.BeaconRole, op spectypes.OperatorID, typ spectypes.PartialSigMsgType, slot phase0.Slot, nsig int) *spectypes.SignedPartialSignatureMessage {
	v := w.vals[vi]
	sk := v.ks.Shares[op]
	ps := spectypes.PartialSignatureMessages{Type: typ, Slot: slot}
	for i := 0; i < nsig; i++ {
		root := sha256.Sum256([]byte(fmt.Sprintf("root-%d-%d-%d-%d", vi, slot, typ, i)))
		sig := make([]byte, 96)
		if sk != nil {
			sig = sk.SignByte(root[:]).Serialize()
		}
		ps.Messages = append(ps.Messages, &spectypes.PartialSignatureMessage{PartialSignature: sig, SigningRoot: root, Signer: op})
	}
	r, _ := ps.GetRoot()
	sig := make([]byte, 96)
	if sk != nil {
		sig = sk.SignByte(r[:]).Serialize()
	} else {
		sig[0] = 1
	}
	return &spectypes.SignedPartialSignatureMessage{Message: ps, Signature: sig, Signer: op}
}

func (w *world) partialStep(vi, ri int, op, post int64) {
	vi, ri = vi%4, ri%len(roles)
	role, v := roles[ri], w.vals[vi]
	id := uint64(op%int64(v.n)) + 1
	typ := partialTypeOf[role][post&1]
	spm := w.buildPartial(vi, role, id, typ, w.curSlot(), 1)
	data, err := spm.Encode()
	if err != nil {
		return
	}
	w.enqueue(vi, role, id, &spectypes.SSVMessage{MsgType: spectypes.SSVPartialSignatureMsgType, MsgID: spectypes.NewMsgID(w.netCfg.Domain, v.pk, role), Data: data})
	w.d.Logf("partial v=%d role=%s op=%d type=%d queued=%d", vi, role, id, typ, len(w.queue))
}
