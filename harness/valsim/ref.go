package valsim

import (
	"crypto"
	"crypto/rsa"
	"crypto/sha256"
	"crypto/x509"
	"encoding/base64"
	"encoding/binary"
	"encoding/pem"
	"fmt"
	"time"

	specqbft "github.com/bloxapp/ssv-spec/qbft"
	spectypes "github.com/bloxapp/ssv-spec/types"
)

// reference: the gossip rules of the C09 statement, written from the statement. It has its own tables
// (validators, operator keys), its own topic / leader / window arithmetic and its own per-signer record.
// Windows are deliberately WIDER than any constant of the implementation (see slotWindow/roundWindow).
type reference struct {
	w       *world
	opKeys  map[uint64]*rsa.PublicKey
	byPK    map[string]*valInfo
	hist    map[string]*signerRec
	genesis int64
}

func stdPub(b64 string) *rsa.PublicKey {
	p, _ := base64.StdEncoding.DecodeString(b64)
	blk, _ := pem.Decode(p)
	k, err := x509.ParsePKCS1PrivateKey(blk.Bytes)
	if err != nil {
		panic(err)
	}
	return &k.PublicKey
}

var stdPubs []*rsa.PublicKey

func newReference(w *world) *reference {
	if stdPubs == nil {
		for _, s := range rsaPrivB64 {
			stdPubs = append(stdPubs, stdPub(s))
		}
	}
	r := &reference{w: w, opKeys: map[uint64]*rsa.PublicKey{}, byPK: map[string]*valInfo{}, hist: map[string]*signerRec{},
		genesis: 1616508000} // Prater genesis, from the beacon chain's published parameters
	for id := 1; id <= strangerOp; id++ {
		r.opKeys[uint64(id)] = stdPubs[id-1]
	}
	for _, v := range w.vals {
		if v.share != nil {
			r.byPK[string(v.pk)] = v
		}
	}
	return r
}

// parsed is the reference's own reading of an input.
type parsed struct {
	enveloped bool
	opID      uint64
	sig       []byte
	payload   []byte
	ssv       *spectypes.SSVMessage
	cons      *specqbft.SignedMessage
	part      *spectypes.SignedPartialSignatureMessage
	val       *valInfo
	role      spectypes.BeaconRole
	kind      string
}

func (r *reference) slotAt(t time.Time) int64 { return (t.Unix() - r.genesis) / 12 }

// envelopeMode: 1 = envelopes required, 0 = bare, -1 = boundary epoch (statement does not say; not judged).
func (r *reference) envelopeMode(now time.Time) int {
	ep, act := uint64(r.slotAt(now)/32), uint64(r.w.netCfg.PermissionlessActivationEpoch)
	switch {
	case ep > act:
		return 1
	case ep == act:
		return -1
	}
	return 0
}

func (r *reference) parse(data []byte, now time.Time) (*parsed, string) {
	p := &parsed{payload: data}
	mode := r.envelopeMode(now)
	tryBare := func() bool {
		m := &spectypes.SSVMessage{}
		if m.Decode(p.payload) != nil {
			return false
		}
		p.ssv = m
		return true
	}
	if mode == 1 || (mode == -1 && !tryBare()) {
		if len(data) < 264 {
			return p, "envelope"
		}
		p.enveloped, p.sig, p.opID, p.payload = true, data[:256], binary.LittleEndian.Uint64(data[256:264]), data[264:]
	}
	if p.ssv == nil && !tryBare() {
		return p, "decodable"
	}
	p.role = p.ssv.MsgID.GetRoleType()
	p.val = r.byPK[string(p.ssv.MsgID.GetPubKey())]
	switch p.ssv.MsgType {
	case spectypes.SSVConsensusMsgType:
		sm := &specqbft.SignedMessage{}
		if sm.Decode(p.ssv.Data) != nil {
			return p, "decodable"
		}
		p.cons = sm
		p.kind = [...]string{"proposal", "prepare", "commit", "rc"}[int(sm.Message.MsgType)%4]
		if uint64(sm.Message.MsgType) > 3 {
			p.kind = "unknown-qbft"
		} else if len(sm.Signers) > 1 {
			p.kind = "multi-" + p.kind
		}
	case spectypes.SSVPartialSignatureMsgType:
		pm := &spectypes.SignedPartialSignatureMessage{}
		if pm.Decode(p.ssv.Data) != nil {
			return p, "decodable"
		}
		p.part, p.kind = pm, "partial"
	default:
		p.kind = "other"
	}
	return p, ""
}

func quorumOf(n int) int { return n - (n-1)/3 }

// broken lists every rule of the statement that the input breaks at time now on topic (empty = none).
func (r *reference) broken(topic string, data []byte, now time.Time) ([]string, *parsed) {
	p, bad := r.parse(data, now)
	if bad != "" {
		return []string{bad}, p
	}
	var out []string
	add := func(s string) { out = append(out, s) }
	if p.val == nil {
		add("validator-known")
	} else if !p.val.eligible {
		add("validator-active-not-liquidated")
	}
	pk := p.ssv.MsgID.GetPubKey()
	if len(pk) != 48 || topic != fmt.Sprintf("ssv.v2.%d", pk[4]&0x7f) { // subnet = first 40 bits of the key mod 128
		add("topic")
	}
	if p.enveloped && r.envelopeMode(now) == 1 {
		key := r.opKeys[p.opID]
		h := sha256.Sum256(p.payload)
		if key == nil {
			add("envelope-operator-registered")
		} else if rsa.VerifyPKCS1v15(key, crypto.SHA256, h[:], p.sig) != nil {
			add("envelope-signature")
		}
	}
	if p.val == nil {
		return out, p
	}
	n := p.val.n
	member := func(id uint64) bool { return id >= 1 && id <= uint64(n) } // committees are operators 1..n
	cur := r.slotAt(now)
	switch {
	case p.cons != nil:
		sm := p.cons
		for i, s := range sm.Signers {
			if s == 0 {
				add("signer-nonzero")
			} else if !member(s) {
				add("signer-in-committee")
			}
			if i > 0 && s < sm.Signers[i-1] {
				add("signers-sorted")
			}
			if i > 0 && s == sm.Signers[i-1] {
				add("signers-distinct")
			}
		}
		isCommit := sm.Message.MsgType == specqbft.CommitMsgType
		if k := len(sm.Signers); k != 1 && !(isCommit && k >= quorumOf(n) && k <= n) {
			add("signer-count")
		}
		h, rd := uint64(sm.Message.Height), uint64(sm.Message.Round)
		if sm.Message.MsgType == specqbft.ProposalMsgType && len(sm.Signers) == 1 && rd >= 1 {
			if leader := (h%uint64(n)+(rd-1)%uint64(n))%uint64(n) + 1; sm.Signers[0] != leader {
				add("proposal-leader")
			}
		}
		if len(sm.FullData) > 0 {
			if root, err := specqbft.HashDataRoot(sm.FullData); err != nil || root != sm.Message.Root {
				add("full-data-hash")
			}
		}
		if !slotWindow(p.role, h, cur) {
			add("slot-window")
		}
		if !roundWindow(p.role, rd, now.Unix()-(r.genesis+int64(h)*12), h) {
			add("round-window")
		}
		out = append(out, r.historyBroken(p)...)
	case p.part != nil:
		if p.part.Signer == 0 {
			add("signer-nonzero")
		} else if !member(p.part.Signer) {
			add("signer-in-committee")
		}
		if !slotWindow(p.role, uint64(p.part.Message.Slot), cur) {
			add("slot-window")
		}
	}
	return out, p
}

// slotWindow: at most 2 slots early; at most 8 (block / sync-committee duties) or 48 (attestation /
// aggregation duties) slots late; registration and exit have no lateness bound. Wider than the
// implementation's (0 early; 3 / 34 late).
func slotWindow(role spectypes.BeaconRole, slot uint64, cur int64) bool {
	if slot > uint64(cur)+2 {
		return false
	}
	late := cur - int64(slot)
	switch role {
	case spectypes.BNRoleProposer, spectypes.BNRoleSyncCommittee, spectypes.BNRoleSyncCommitteeContribution:
		return late <= 8
	case spectypes.BNRoleAttester, spectypes.BNRoleAggregator:
		return late <= 48
	}
	return true
}

// roundWindow: round >= 1, <= 16 for every consensus role (implementation: 12 / 6), and not more than 3
// rounds ahead of what the elapsed time since the slot start allows with 2 s rounds up to round 8 and
// 2 min rounds afterwards (implementation: 1 ahead). Registration / exit roles have no consensus rounds.
func roundWindow(role spectypes.BeaconRole, round uint64, sinceSlotStart int64, _ uint64) bool {
	if role == spectypes.BNRoleValidatorRegistration || role == spectypes.BNRoleVoluntaryExit {
		return false
	}
	if round < 1 || round > 16 {
		return false
	}
	est := int64(1)
	if sinceSlotStart > 0 {
		if est = 1 + sinceSlotStart/2; est > 8 {
			est = 9 + (sinceSlotStart-16)/120
		}
	}
	return int64(round) <= est+3
}
