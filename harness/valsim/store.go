package valsim

import (
	specqbft "github.com/bloxapp/ssv-spec/qbft"
	"go.uber.org/zap"

	qbftstorage "github.com/bloxapp/ssv/protocol/v2/qbft/storage"
)

// memStore: QBFT instance store stub of the honest traffic generators (not under test here).
type memStore struct {
	highest *qbftstorage.StoredInstance
	byH     map[specqbft.Height]*qbftstorage.StoredInstance
}

func newMemStore() *memStore {
	return &memStore{byH: map[specqbft.Height]*qbftstorage.StoredInstance{}}
}

func (m *memStore) GetHighestInstance([]byte) (*qbftstorage.StoredInstance, error) {
	return m.highest, nil
}
func (m *memStore) GetInstancesInRange(_ []byte, from, to specqbft.Height) ([]*qbftstorage.StoredInstance, error) {
	var out []*qbftstorage.StoredInstance
	for h, i := range m.byH {
		if h >= from && h <= to {
			out = append(out, i)
		}
	}
	return out, nil
}
func (m *memStore) SaveInstance(i *qbftstorage.StoredInstance) error {
	m.byH[i.State.Height] = i
	return nil
}
func (m *memStore) SaveHighestInstance(i *qbftstorage.StoredInstance) error {
	m.highest = i
	return nil
}
func (m *memStore) SaveHighestAndHistoricalInstance(i *qbftstorage.StoredInstance) error {
	m.highest, m.byH[i.State.Height] = i, i
	return nil
}
func (m *memStore) GetInstance(_ []byte, h specqbft.Height) (*qbftstorage.StoredInstance, error) {
	return m.byH[h], nil
}
func (m *memStore) CleanAllInstances(*zap.Logger, []byte) error { return nil }
