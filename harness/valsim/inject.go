package valsim

import (
	"encoding/hex"
	"fmt"

	spectypes "github.com/bloxapp/ssv-spec/types"

	"verifharness/sim"
)

// pickTopic: 0 = the validator's topic, 1 = a neighbouring subnet, 2 = another deliverable topic,
// 3.. = strings pubsub would never deliver on (C08 only cares that nothing crashes).
func (w *world) pickTopic(sel int64, pk []byte) string {
	own := 0
	if len(pk) >= 5 {
		own = int(pk[4] & 0x7f)
	}
	switch sel % 8 {
	case 0, 1, 2, 3:
		return fmt.Sprintf("ssv.v2.%d", own)
	case 4:
		return fmt.Sprintf("ssv.v2.%d", (own+1)%128)
	case 5:
		return fmt.Sprintf("ssv.v2.%d", (own+int(sel/8)%127+1)%128)
	case 6:
		return []string{"", "ssv.v2.", "ssv.v2.unknown", fmt.Sprintf("%d", own), fmt.Sprintf("1ssv.v2.%d", own), "ssv.v2.-1", "ssv.v2.128"}[(sel/8)%7]
	}
	return fmt.Sprintf("ssv.v2.%d", own)
}

func (w *world) senderOp(sel int64) (op int, claimed uint64) {
	op = int(sel%int64(strangerOp)) + 1
	claimed = uint64(op)
	// the operator id the envelope claims: mostly the signer's; sometimes one of three ids that are
	// registered nowhere - the SAME three in every message, so that the validator meets them repeatedly
	switch (sel / 16) % 8 {
	case 5:
		claimed = uint64(unregisteredK) + 1
	case 6:
		claimed = 0
	case 7:
		claimed = ^uint64(0)
	}
	return op, claimed
}

// rawStep: random bytes at one of four depths. S[0] = hex bytes. A = [depth, topicSel, vi, opSel, typ, role].
func (w *world) rawStep(s sim.Step) {
	b, _ := hex.DecodeString(s.Str(0))
	v := w.vals[int(s.Arg(2))%len(w.vals)]
	op, claimed := w.senderOp(s.Arg(3))
	var wire []byte
	switch s.Arg(0) % 4 {
	case 0: // whole pubsub payload
		wire = b
	case 1: // behind a correctly signed envelope
		wire = w.signedEnvelope(b, op, claimed)
	case 2: // as the data of a well-addressed SSVMessage
		wire = w.envelope(rawSSV(uint64(s.Arg(4)%3), msgID(w.netCfg.Domain, v.pk, uint64(s.Arg(5)%8)), b), op, claimed)
	case 3: // as a justification / full data inside a well-formed consensus message
		m := rawMsg{typ: uint64(s.Arg(4) % 4), height: uint64(w.curSlot()), round: 2, id: msgID(w.netCfg.Domain, v.pk, uint64(s.Arg(5)%5)), rcj: [][]byte{b}, pj: [][]byte{b}}
		sig := make([]byte, 96)
		sig[0] = 1
		wire = w.envelope(rawSSV(0, m.id, rawSigned(sig, []uint64{uint64(op)}, m.bytes(), b)), op, claimed)
	}
	w.submit(fmt.Sprintf("raw depth=%d len=%d v=%s", s.Arg(0)%4, len(b), v.kind), w.pickTopic(s.Arg(1), v.pk), wire, "")
}

// byteMutStep: byte-level mutation of a gossiped honest message. A = [honestIdx, level, op, pos, val, topicSel].
// level 0 = wire bytes, 1 = payload (envelope re-signed), 2 = SSVMessage.Data (re-encoded, re-signed).
func (w *world) byteMutStep(s sim.Step) {
	if len(w.honest) == 0 {
		return
	}
	h := w.honest[int(s.Arg(0))%len(w.honest)]
	level := s.Arg(1) % 3
	var b []byte
	switch level {
	case 0:
		b = append([]byte(nil), w.envelope(h.payload, int(h.from), h.from)...)
	case 1:
		b = append([]byte(nil), h.payload...)
	default:
		b = append([]byte(nil), h.ssv.Data...)
	}
	b = mutateBytes(b, s.Arg(2), s.Arg(3), s.Arg(4))
	switch level {
	case 1:
		b = w.envelope(b, int(h.from), h.from)
	case 2:
		b = w.envelope(rawSSV(uint64(h.ssv.MsgType), h.ssv.MsgID[:], b), int(h.from), h.from)
	}
	w.d.Fault("gossip-byte-mutation")
	w.submit(fmt.Sprintf("bytemut of %s level=%d op=%d pos=%d", h.kind, level, s.Arg(2)%6, s.Arg(3)), w.pickTopic(s.Arg(5), w.vals[h.vi].pk), b, "")
}

func mutateBytes(b []byte, op, pos, val int64) []byte {
	if pos < 0 {
		pos = -pos
	}
	n := int64(len(b))
	if n == 0 {
		return append(b, byte(val))
	}
	p := pos % n
	switch op % 6 {
	case 0: // bit flip
		b[p] ^= 1 << uint(val&7)
	case 1: // truncate
		b = b[:p]
	case 2: // extend
		for i := int64(0); i < val%300+1; i++ {
			b = append(b, byte(pos+i))
		}
	case 3: // set byte (0x00 / 0xff / anything)
		b[p] = byte(val)
	case 4: // overwrite 8 bytes with a boundary integer (hits lengths, offsets, rounds, heights)
		x := boundary64[int(val&0xff)%len(boundary64)]
		for i := int64(0); i < 8 && p+i < n; i++ {
			b[p+i] = byte(x >> (8 * uint(i)))
		}
	case 5: // overwrite a 4-byte SSZ offset
		x := []uint32{0, 1, 4, 107, 108, 0xffffffff, 0x7fffffff, uint32(n), uint32(n + 1), uint32(n - 1)}[int(val&0xff)%10]
		for i := int64(0); i < 4 && p+i < n; i++ {
			b[p+i] = byte(x >> (8 * uint(i)))
		}
	}
	return b
}

var boundary64 = []uint64{0, 1, 2, 1<<63 - 1, 1 << 63, 1<<63 + 1, ^uint64(0), ^uint64(0) - 1, 1 << 32, 1<<32 - 1, 1 << 31, 13, 14}

// directStep: ValidateSSVMessage entry with an honest or byte-mutated message (C08 only: no topic/envelope there).
func (w *world) directStep(s sim.Step) {
	if len(w.honest) == 0 || w.prop != "C08" {
		return
	}
	h := w.honest[int(s.Arg(0))%len(w.honest)]
	data := append([]byte(nil), h.ssv.Data...)
	if s.Arg(1)%3 != 0 {
		data = mutateBytes(data, s.Arg(2), s.Arg(3), s.Arg(4))
	}
	id := h.ssv.MsgID
	if s.Arg(1)%5 == 4 {
		copy(id[:], mutateBytes(append([]byte(nil), id[:]...), 3, s.Arg(3), s.Arg(4)))
	}
	v := w.direct(&spectypes.SSVMessage{MsgType: h.ssv.MsgType, MsgID: id, Data: data})
	w.d.Logf("direct of %s -> %s", h.kind, v)
}
