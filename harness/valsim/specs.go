package valsim

import "verifharness/sim"

var realCommon = []string{
	"message/validation: NewMessageValidator, ValidatePubsubMessage, ValidateSSVMessage and everything below them (all rule checks, ConsensusState / SignerState / MessageCounts, RSA envelope verification through operator/keys = OpenSSL)",
	"network/commons codecs (DecodeSignedSSVMessage, DecodeNetworkMsg, topic mapping), protocol/v2/ssv/queue.DecodeSSVMessage, ssv-spec SSZ codecs",
	"operator/storage node storage with registry/storage shares + operators (8 validators: 4 eligible with committees of 4/7/10|13, liquidated, metadata-less, exited, unknown; 14 registered operators)",
	"operator/duties/dutystore (proposer duties added when the duty starts, sync-committee duties per period)",
	"networkconfig.TestNetwork with the real beacon.Network arithmetic (Prater genesis), PermissionlessActivationEpoch moved per run (never / always / next epoch)",
	"honest traffic: protocol/v2/qbft/controller.Controller + instance.Instance of every committee member (real BLS share signing with the spec test key sets), instance.IsProposalJustification inside validation",
}

var stubCommon = []string{
	"clock: testing/synctest bubble (time.Now inside validation is the fake clock; the run sleeps to Prater genesis + start slot)",
	"storage engine: sim.MemDB under the real node storage",
	"network and round timers of the honest committees (capture buffer / explicit timeout step after the real timeout duration)",
	"partial-signature messages of honest operators: built like a runner would (real BLS share signatures) but not by the real runners",
	"metrics reporter: the package's no-op default",
}

var Specs = map[string]*sim.Spec{
	"C08": {Sim: "valsim", GenConfig: genConfig("C08"), Run: run("C08"), Real: append([]string{"network/records: SignedNodeInfo / NodeInfo Consume + UnmarshalRecord, NodeMetadata.Decode, Subnets.FromString"}, realCommon...), Stub: stubCommon,
		Rule:        "Seeded programs of: slot/time advance, duty start at all operators of a committee, pump (gossip the next honest broadcasts through the validator, then deliver them to the committee), round timeout, honest partial signature, and injections: raw random bytes at 4 nesting depths, byte-level mutations (flip / truncate / extend / set / boundary integer / SSZ offset) of honest messages at wire, payload or data level with re-signed envelopes, structurally valid messages from boundary tables written by a limit-free SSZ writer (round 0, 2^63, 2^64-1; height 0, 2^63, max; 0 / 14 / unsorted / duplicate signers; unknown types and roles; truncated, nested, 14-long, oversize justifications; 0-length, 1 MiB, max+1 and 9 MiB data), right and wrong topics, through ValidatePubsubMessage and ValidateSSVMessage. Oracle: recovered panic (signature = panicking function@file:line), > 10 s CPU time of the calling thread, > 64 MiB + 50 x input allocated. DECODER HALF (dec steps, share drawn per run 0-100%): honestly nothing but seeded input mutation of corpus / honest / random bytes into the 9 standalone decoders - there is no schedule in them. Non-trivial: >= 6 honest messages accepted before the end (the validator has per-signer history); distinct = hash of (message kind, verdict, number of signer records) sequence.",
		Assumptions: []string{"a call that never returns cannot be reported as a violation record: an out-of-bubble watchdog prints the input after 30 s and the worker then times out (exit 2)", "allocation is measured with runtime/metrics heap allocs (Go heap only; OpenSSL allocations are not counted)", "regime C (concurrent validation) not simulated"}},
	"C09": {Sim: "valsim", GenConfig: genConfig("C09"), Run: run("C09"), Real: realCommon, Stub: stubCommon,
		Rule: "Same world and step kinds as C08 (without the decoder half and the ValidateSSVMessage entry). Oracle 1: every ACCEPTED gossip message is judged by a reference predicate written from the statement (own validator / operator-key tables, own topic, leader, quorum and window arithmetic, stdlib RSA, own per-(validator, role, signer) record updated with every accepted consensus message); windows wider than the implementation's: slot <= 2 early, <= 8 / 48 late; round 1..16 and <= elapsed-time estimate + 3. Oracle 2: before every honest message is gossiped, up to 32 single-rule mutants of it (topic, 4 validator states, 6 envelope faults, signer order / duplicate / zero / non-member / count, leader, full-data hash, slot window incl. a slot whose start time wraps around, round window, partial-signature slot and signer) and after its acceptance 6 history mutants (replay, same type other root, slot back, decided slot back, round back, second proposal with other data) are gossiped with correctly re-signed envelopes; a mutant that the reference confirms as rule-breaking must not be accepted. Step mask selects the mutants (all of them in 25% of the pumps, a random quarter or eighth otherwise). Non-trivial: >= 6 honest messages accepted.",
		Assumptions: []string{
			"concurrent validation (pair steps, about one gossip in eight once envelopes are active): two messages - an honest one with a verbatim copy, with a same-signer same-round other-root message, or with the next honest message - are validated by two goroutines that park at the only storage call inside validation (operator-key lookup on a cold key cache, which lies between the per-signer check and update); a lock-aware scheduler interleaves them from the step's sub-seed; at most one of a conflicting pair may be accepted. Interleavings at other points (no seam there) are not controlled",
			"topics are judged only among the 128 topic names pubsub can deliver on; acceptance on a string pubsub never delivers on is a diagnostic probe",
			"in the epoch equal to PermissionlessActivationEpoch the statement does not say whether envelopes are required; the reference does not judge the envelope there",
			"'one commit per signer per round' is applied to single-signer commits; quorum-sized (decided) commits are not counted per signer but must not go back in slot or round for any signer",
			"the per-signer record of the reference follows consensus messages only (the statement's per-signer limits are about consensus messages)",
			"BLS message signatures are not a gossip rule of the statement and are not judged",
		}},
}
