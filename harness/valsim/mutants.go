package valsim

import (
	"fmt"

	specqbft "github.com/bloxapp/ssv-spec/qbft"
	spectypes "github.com/bloxapp/ssv-spec/types"
)

// reSSV re-wraps a (mutated) consensus message for validator vi / role as the Byzantine sender would:
// identifier and MsgID agree, envelope correctly signed by the sender.
func (w *world) reSSV(h *hmsg, vi int, sm *specqbft.SignedMessage) []byte {
	id := spectypes.NewMsgID(w.netCfg.Domain, w.vals[vi].pk, h.role)
	sm.Message.Identifier = id[:]
	data, err := sm.Encode()
	if err != nil {
		return nil
	}
	p, err := (&spectypes.SSVMessage{MsgType: spectypes.SSVConsensusMsgType, MsgID: id, Data: data}).Encode()
	if err != nil {
		return nil
	}
	return p
}

func decodeCons(h *hmsg) *specqbft.SignedMessage {
	if h.ssv.MsgType != spectypes.SSVConsensusMsgType {
		return nil
	}
	sm := &specqbft.SignedMessage{}
	if sm.Decode(h.ssv.Data) != nil {
		return nil
	}
	return sm
}

type mutant struct {
	rule  string
	build func(w *world, h *hmsg) (topic string, wire []byte) // nil wire = not applicable
}

// consMut: mutate the decoded consensus message, keep everything else honest.
func consMut(rule string, f func(w *world, h *hmsg, sm *specqbft.SignedMessage) bool) mutant {
	return mutant{rule, func(w *world, h *hmsg) (string, []byte) {
		sm := decodeCons(h)
		if sm == nil || !f(w, h, sm) {
			return "", nil
		}
		p := w.reSSV(h, h.vi, sm)
		if p == nil {
			return "", nil
		}
		return topicOf(w.vals[h.vi].pk), w.envelope(p, int(h.from), h.from)
	}}
}

func retarget(rule string, vi int) mutant {
	return mutant{rule, func(w *world, h *hmsg) (string, []byte) {
		var p []byte
		if sm := decodeCons(h); sm != nil {
			p = w.reSSV(h, vi, sm)
		} else {
			p, _ = (&spectypes.SSVMessage{MsgType: h.ssv.MsgType, MsgID: spectypes.NewMsgID(w.netCfg.Domain, w.vals[vi].pk, h.role), Data: h.ssv.Data}).Encode()
		}
		if p == nil {
			return "", nil
		}
		return topicOf(w.vals[vi].pk), w.envelope(p, int(h.from), h.from)
	}}
}

func envMut(rule string, f func(w *world, h *hmsg) []byte) mutant {
	return mutant{rule, func(w *world, h *hmsg) (string, []byte) {
		if !w.forkActive() || w.ref.envelopeMode(w.now()) != 1 {
			return "", nil
		}
		return topicOf(w.vals[h.vi].pk), f(w, h)
	}}
}

func single(sm *specqbft.SignedMessage) bool { return len(sm.Signers) == 1 }

var before = []mutant{
	{"topic", func(w *world, h *hmsg) (string, []byte) {
		pk := w.vals[h.vi].pk
		return fmt.Sprintf("ssv.v2.%d", (int(pk[4]&0x7f)+1+h.vi)%128), w.envelope(h.payload, int(h.from), h.from)
	}},
	retarget("validator-active-not-liquidated", 4),
	retarget("validator-active-not-liquidated", 5),
	retarget("validator-active-not-liquidated", 6),
	retarget("validator-known", 7),
	envMut("envelope-signature", func(w *world, h *hmsg) []byte {
		e := append([]byte(nil), w.signedEnvelope(h.payload, int(h.from), h.from)...)
		e[len(h.payload)%256] ^= 0x10
		return e
	}),
	envMut("envelope-signature", func(w *world, h *hmsg) []byte { // signature of another payload
		e := append([]byte(nil), w.signedEnvelope(h.payload, int(h.from), h.from)...)
		e[len(e)-1-(len(e)%7)] ^= 0x01 // inside the BLS signature / data area of the payload: still decodable
		return e
	}),
	envMut("envelope-operator-registered", func(w *world, h *hmsg) []byte { return w.signedEnvelope(h.payload, int(h.from), 99) }),
	envMut("envelope-signature", func(w *world, h *hmsg) []byte { return w.signedEnvelope(h.payload, unregisteredK+1, h.from) }),
	envMut("envelope-signature", func(w *world, h *hmsg) []byte { return w.signedEnvelope(h.payload, int(h.from), h.from%4+1) }),
	envMut("*", func(w *world, h *hmsg) []byte { return h.payload }),
	consMut("signers-sorted", func(w *world, h *hmsg, sm *specqbft.SignedMessage) bool {
		if len(sm.Signers) < 2 {
			return false
		}
		sm.Signers[0], sm.Signers[1] = sm.Signers[1], sm.Signers[0]
		return true
	}),
	consMut("signers-distinct", func(w *world, h *hmsg, sm *specqbft.SignedMessage) bool {
		if len(sm.Signers) < 2 {
			return false
		}
		sm.Signers[1] = sm.Signers[0]
		return true
	}),
	consMut("signer-nonzero", func(w *world, h *hmsg, sm *specqbft.SignedMessage) bool { sm.Signers[0] = 0; return true }),
	consMut("signer-in-committee", func(w *world, h *hmsg, sm *specqbft.SignedMessage) bool {
		sm.Signers[len(sm.Signers)-1] = uint64(w.vals[h.vi].n + 1)
		return true
	}),
	consMut("signer-count", func(w *world, h *hmsg, sm *specqbft.SignedMessage) bool { // two signers on a non-commit / sub-quorum commit
		if !single(sm) {
			return false
		}
		sm.Signers = []uint64{sm.Signers[0], sm.Signers[0] + 1}
		if sm.Signers[1] > uint64(w.vals[h.vi].n) {
			sm.Signers = []uint64{1, sm.Signers[0]}
		}
		return true
	}),
	consMut("signer-count", func(w *world, h *hmsg, sm *specqbft.SignedMessage) bool { // quorum-sized non-commit
		if sm.Message.MsgType == specqbft.CommitMsgType {
			return false
		}
		sm.Signers = nil
		for i := 1; i <= quorumOf(w.vals[h.vi].n); i++ {
			sm.Signers = append(sm.Signers, uint64(i))
		}
		return true
	}),
	consMut("proposal-leader", func(w *world, h *hmsg, sm *specqbft.SignedMessage) bool {
		if sm.Message.MsgType != specqbft.ProposalMsgType {
			return false
		}
		sm.Signers[0] = sm.Signers[0]%uint64(w.vals[h.vi].n) + 1
		return true
	}),
	consMut("full-data-hash", func(w *world, h *hmsg, sm *specqbft.SignedMessage) bool {
		if len(sm.FullData) == 0 {
			sm.FullData = []byte("attached data that does not hash to the root")
		} else {
			sm.FullData[len(sm.FullData)/2] ^= 0x40
		}
		return true
	}),
	consMut("full-data-hash", func(w *world, h *hmsg, sm *specqbft.SignedMessage) bool {
		sm.Message.Root[5] ^= 1
		return len(sm.FullData) > 0
	}),
	consMut("slot-window", func(w *world, h *hmsg, sm *specqbft.SignedMessage) bool { sm.Message.Height += 1000; return true }),
	consMut("slot-window", func(w *world, h *hmsg, sm *specqbft.SignedMessage) bool { sm.Message.Height += 40; return true }),
	consMut("slot-window", func(w *world, h *hmsg, sm *specqbft.SignedMessage) bool { sm.Message.Height -= 2000; return true }),
	consMut("slot-window", func(w *world, h *hmsg, sm *specqbft.SignedMessage) bool { sm.Message.Height += 1 << 62; return true }), // 12 s x 2^62 wraps to 0
	consMut("round-window", func(w *world, h *hmsg, sm *specqbft.SignedMessage) bool { sm.Message.Round = 0; return true }),
	consMut("round-window", func(w *world, h *hmsg, sm *specqbft.SignedMessage) bool { sm.Message.Round = 40; return true }),
	consMut("round-window", func(w *world, h *hmsg, sm *specqbft.SignedMessage) bool { sm.Message.Round += 9; return true }),
	{"slot-window", func(w *world, h *hmsg) (string, []byte) { return w.partialMutant(h, 5000, 0) }},
	{"slot-window", func(w *world, h *hmsg) (string, []byte) { return w.partialMutant(h, -5000, 0) }},
	{"slot-window", func(w *world, h *hmsg) (string, []byte) { return w.partialMutant(h, 1<<62, 0) }},
	{"signer-nonzero", func(w *world, h *hmsg) (string, []byte) { return w.partialMutant(h, 0, 1) }},
	{"signer-in-committee", func(w *world, h *hmsg) (string, []byte) { return w.partialMutant(h, 0, 2) }},
}

func (w *world) partialMutant(h *hmsg, dslot int64, signerMode int) (string, []byte) {
	if h.ssv.MsgType != spectypes.SSVPartialSignatureMsgType {
		return "", nil
	}
	pm := &spectypes.SignedPartialSignatureMessage{}
	if pm.Decode(h.ssv.Data) != nil {
		return "", nil
	}
	signer := pm.Signer
	switch signerMode {
	case 1:
		signer = 0
	case 2:
		signer = uint64(w.vals[h.vi].n + 1)
	}
	m := w.buildPartial(h.vi, h.role, pm.Signer, pm.Message.Type, pm.Message.Slot+spectypesSlot(dslot), 1)
	m.Signer = signer
	for _, x := range m.Message.Messages {
		x.Signer = signer
	}
	data, err := m.Encode()
	if err != nil {
		return "", nil
	}
	p, _ := (&spectypes.SSVMessage{MsgType: h.ssv.MsgType, MsgID: h.ssv.MsgID, Data: data}).Encode()
	return topicOf(w.vals[h.vi].pk), w.envelope(p, int(h.from), h.from)
}

func (w *world) runMutants(list []mutant, h *hmsg, mask int64, tag string) {
	for i, m := range list {
		if mask&(1<<uint(i%62)) == 0 {
			continue
		}
		if topic, wire := m.build(w, h); wire != nil {
			w.submit(fmt.Sprintf("mutant %s#%d(%s) of %s", tag, i, m.rule, h.kind), topic, wire, m.rule)
		}
	}
}

func (w *world) mutantsBefore(h *hmsg, mask int64) { w.runMutants(before, h, mask, "pre") }
