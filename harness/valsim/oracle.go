package valsim

import (
	"fmt"
	spectypes "github.com/bloxapp/ssv-spec/types"
	"strings"

	"github.com/bloxapp/ssv/network/commons"
)

var deliverable = func() map[string]bool { // the topics pubsub can deliver on (one validator function per joined topic)
	m := map[string]bool{}
	for _, t := range commons.Topics() {
		m[t] = true
	}
	return m
}()

func has(list []string, s string) bool {
	for _, x := range list {
		if x == s {
			return true
		}
	}
	return false
}

// submit = one gossip validation under both oracles. expect != "" marks a targeted single-rule mutant of
// an honest message (oracle 2); "*" = must break at least one rule. Returns the verdict.
func (w *world) submit(src, topic string, data []byte, expect string) string {
	now := w.now()
	var broken []string
	var p *parsed
	judged := false
	if w.prop == "C09" && expect != "" {
		broken, p = w.ref.broken(topic, data, now)
		judged = true
		if (expect == "*" && len(broken) == 0) || (expect != "*" && !has(broken, expect)) {
			w.d.Probe("mutant-ineffective:" + expect)
			w.d.Logf("ineffective mutant %s: reference says broken=%v", expect, broken)
			expect = ""
		} else {
			w.d.Fault("mutant:" + expect)
		}
	}
	verdict, _ := w.gossip(topic, data)
	w.d.Logf("%s -> %s", src, verdict)
	class := src
	if i := strings.IndexByte(src, ' '); i > 0 {
		class = src[:i]
	}
	w.d.Probe(class + ":" + verdict)
	w.d.State("gossip", class, fmt.Sprintf("%s/acc%d", verdict, w.nAcc/4))
	if verdict != "accept" || w.prop != "C09" {
		return verdict
	}
	if !judged {
		broken, p = w.ref.broken(topic, data, now)
	}
	kind := "?"
	if p != nil && p.kind != "" {
		kind = p.kind
	}
	for _, rule := range broken {
		if rule == "topic" && !deliverable[topic] {
			w.d.Probe("diag-accepted-on-undeliverable-topic")
			continue
		}
		label := rule
		if rule == "slot-window" && p != nil && p.slot() >= 1<<60 && kind != "partial" {
			// slot so large that slot x 12 s wraps around: a different root cause (repaired by f763c0541 for
			// consensus messages; partial-signature messages have no slot window at all, whatever the slot)
			label = "slot-window-overflow"
		}
		inv, sig := "accept-implies-rules", label+"/"+kind
		if expect == rule || expect == "*" {
			inv, sig = "mutation-not-accepted", "mut-"+sig
		}
		w.d.Finding(inv, sig, "%s accepted although it breaks rule %q (all broken: %s); topic=%q slot=+%d data(hex)=%s",
			src, rule, strings.Join(broken, ","), topic, int64(w.curSlot())-int64(w.slot0), hexShort(data))
	}
	if len(broken) == 0 {
		w.d.Probe("accepted-clean:" + kind)
	}
	if p != nil && p.kind == "other" {
		w.d.Probe("diag-accepted-other-type")
	}
	w.ref.record(p)
	return verdict
}

func partialSlot(h *hmsg) uint64 {
	spm := &spectypes.SignedPartialSignatureMessage{}
	if h.ssv == nil || spm.Decode(h.ssv.Data) != nil {
		return ^uint64(0)
	}
	return uint64(spm.Message.Slot)
}

// pump gossips up to n queued honest messages: mutants first (mask selects which), then the message
// itself, then the post-accept mutants, then delivery to the committee (which may broadcast more).
func (w *world) pump(n int, mask int64) {
	for i := 0; i < n && len(w.queue) > 0; i++ {
		h := w.queue[0]
		w.queue = w.queue[1:]
		if w.prop == "C09" {
			w.mutantsBefore(h, mask)
		}
		v := w.submit("honest "+h.kind+" v="+w.vals[h.vi].kind+" role="+h.role.String(), topicOf(w.vals[h.vi].pk), w.envelope(h.payload, int(h.from), h.from), "")
		if v == "accept" {
			w.nAcc++
			w.d.Nontriv = w.nAcc >= 6
			w.d.Probe("honest-accepted:" + h.kind)
			if w.prop == "C08" {
				// no-panic "after any history": the messages derived from the one just accepted (replays, other
				// root, earlier slot/round, second proposal with longer/shorter/other data) reach the branches
				// that compare an input with the signer's record
				w.mutantsAfter(h, mask)
			}
			if w.prop == "C09" {
				w.mutantsAfter(h, mask)
				// per-signer history must survive other traffic of the same signer: after an accepted
				// partial-signature message the history mutants of the signer's last accepted consensus
				// message of that slot are gossiped again (all of them: they are cheap and rare)
				k := fmt.Sprintf("%d/%d/%d", h.vi, h.role, h.from)
				if sm := decodeCons(h); sm != nil && single(sm) {
					w.lastCons[k] = h
					w.lastConsOrder = append(w.lastConsOrder, h)
				} else if h.kind == "partial" {
					if last := w.lastCons[k]; last != nil {
						if sm := decodeCons(last); sm != nil && uint64(sm.Message.Height) == partialSlot(h) {
							w.d.Probe("history-mutants-after-partial")
							w.mutantsAfter(last, -1)
						}
					}
				}
			}
		} else {
			w.d.Probe("diag-honest-" + v + ":" + h.kind) // C10's business, not ours
		}
		w.honest = append(w.honest, h)
		w.deliver(h)
		w.d.State("validator", h.kind+"/"+h.role.String(), fmt.Sprintf("%s/%s/q%d", v, w.ref.histSummary(), len(w.queue)))
	}
}
