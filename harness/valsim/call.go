package valsim

import (
	"context"
	"encoding/hex"
	"fmt"
	"os"
	"path/filepath"
	"runtime"
	"runtime/metrics"
	"strings"
	"sync"
	"sync/atomic"
	"syscall"
	"time"

	spectypes "github.com/bloxapp/ssv-spec/types"
	pubsub "github.com/libp2p/go-libp2p-pubsub"
	pspb "github.com/libp2p/go-libp2p-pubsub/pb"
	"github.com/libp2p/go-libp2p/core/peer"
)

const (
	maxCallNanos = int64(10 * time.Second)
	allocBase    = uint64(64 << 20)
)

func realNanos() int64 { // the bubble fakes time.Now; this is the machine's clock
	var tv syscall.Timeval
	_ = syscall.Gettimeofday(&tv)
	return tv.Sec*1e9 + int64(tv.Usec)*1e3
}

// threadCPUNanos: CPU time of the calling OS thread (the guarded call runs locked to its thread), so
// that a busy machine cannot make a cheap call look like a hang.
func threadCPUNanos() int64 {
	var ru syscall.Rusage
	if err := syscall.Getrusage(1 /* RUSAGE_THREAD */, &ru); err != nil {
		return realNanos()
	}
	return (ru.Utime.Sec+ru.Stime.Sec)*1e9 + (int64(ru.Utime.Usec)+int64(ru.Stime.Usec))*1e3
}

func allocBytes() uint64 {
	s := []metrics.Sample{{Name: "/gc/heap/allocs:bytes"}}
	metrics.Read(s)
	return s[0].Value.Uint64()
}

var (
	callStart atomic.Int64
	callDesc  atomic.Value
	wdOnce    sync.Once
)

// startWatchdog runs OUTSIDE the bubble (real clock): a call that never returns cannot be turned into
// a violation record by the driver, so the input is at least printed before the worker times out.
func startWatchdog() {
	wdOnce.Do(func() {
		go func() {
			for {
				time.Sleep(5 * time.Second)
				if s := callStart.Load(); s != 0 && realNanos()-s > 3*maxCallNanos {
					fmt.Fprintf(os.Stderr, "VALSIM-HANG call running > 30 s real time: %v\n", callDesc.Load())
					callStart.Store(0)
				}
			}
		}()
	})
}

// panicSite names the function and file:line that panicked (first non-runtime frame below gopanic).
func panicSite() string {
	pcs := make([]uintptr, 64)
	fr := runtime.CallersFrames(pcs[:runtime.Callers(0, pcs)])
	seen := false
	for {
		f, more := fr.Next()
		if seen && !strings.HasPrefix(f.Function, "runtime.") {
			fn := f.Function
			if i := strings.LastIndex(fn, "/"); i >= 0 {
				fn = fn[i+1:]
			}
			return fmt.Sprintf("%s@%s:%d", fn, filepath.Base(f.File), f.Line)
		}
		if f.Function == "runtime.gopanic" {
			seen = true
		}
		if !more {
			return "unknown-site"
		}
	}
}

func hexShort(b []byte) string {
	if len(b) > 700 {
		return fmt.Sprintf("%s...(%d bytes)", hex.EncodeToString(b[:700]), len(b))
	}
	return hex.EncodeToString(b)
}

// guarded runs one call of code under test under the C08 oracle: no panic, <= 10 s real time,
// <= 64 MiB + 50 x input size allocated. Returns false if the call panicked.
func (w *world) guarded(entry string, input []byte, extra string, f func()) (ok bool) {
	w.calls++
	callDesc.Store(entry + " " + extra + " " + hexShort(input))
	runtime.LockOSThread()
	t0, a0 := threadCPUNanos(), allocBytes()
	callStart.Store(realNanos())
	defer func() {
		defer runtime.UnlockOSThread()
		callStart.Store(0)
		if r := recover(); r != nil {
			site := panicSite()
			ok = false
			w.d.Logf("PANIC entry=%s site=%s value=%v", entry, site, r)
			if w.prop == "C08" {
				w.d.Finding("no-panic", site, "%s panicked (%v) at %s; %s input(hex)=%s", entry, r, site, extra, hexShort(input))
			} else {
				w.d.Probe("foreign-C08-panic:" + site)
			}
			return
		}
		dt, da := threadCPUNanos()-t0, allocBytes()-a0
		if w.prop != "C08" {
			return
		}
		if dt > maxCallNanos {
			w.d.Finding("no-hang", entry, "%s took %d ms of CPU time; %s input(hex)=%s", entry, dt/1e6, extra, hexShort(input))
		}
		if da > allocBase+50*uint64(len(input)) {
			w.d.Finding("bounded-alloc", entry, "%s allocated %d bytes for %d input bytes; %s input(hex)=%s", entry, da, len(input), extra, hexShort(input))
		}
	}()
	f()
	return true
}

var verdictName = map[pubsub.ValidationResult]string{pubsub.ValidationAccept: "accept", pubsub.ValidationReject: "reject", pubsub.ValidationIgnore: "ignore"}

var somePeer = peer.ID("valsim-peer")

// gossip = one ValidatePubsubMessage call at the current fake time. Returns the verdict ("panic" if it panicked).
func (w *world) gossip(topic string, data []byte) (string, *pubsub.Message) {
	pm := &pubsub.Message{Message: &pspb.Message{Topic: &topic, Data: data}, ReceivedFrom: somePeer}
	res := pubsub.ValidationResult(-1)
	if !w.guarded("ValidatePubsubMessage", data, fmt.Sprintf("topic=%q slot=+%d", topic, int64(w.curSlot())-int64(w.slot0)), func() {
		res = w.mv.ValidatePubsubMessage(context.Background(), somePeer, pm)
	}) {
		return "panic", pm
	}
	name, known := verdictName[res]
	if !known {
		name = fmt.Sprintf("result(%d)", res)
		if w.prop == "C08" {
			w.d.Finding("three-valued", "ValidatePubsubMessage", "returned %d for input(hex)=%s", res, hexShort(data))
		}
	}
	return name, pm
}

// direct = one ValidateSSVMessage call (the entry used for messages that do not come from pubsub).
func (w *world) direct(m *spectypes.SSVMessage) string {
	var err error
	if !w.guarded("ValidateSSVMessage", m.Data, fmt.Sprintf("type=%d id=%x", m.MsgType, m.MsgID[:]), func() {
		_, _, err = w.mv.ValidateSSVMessage(m)
	}) {
		return "panic"
	}
	if err != nil {
		return "error"
	}
	return "accept"
}
