package valsim

import (
	"bytes"
	"fmt"

	specqbft "github.com/bloxapp/ssv-spec/qbft"

	"verifharness/sim"
)

func seq(from, to int) []uint64 {
	var o []uint64
	for i := from; i <= to; i++ {
		o = append(o, uint64(i))
	}
	return o
}

func at[T any](tab []T, sel int64) T {
	if sel < 0 {
		sel = -sel
	}
	return tab[int(sel%int64(len(tab)))]
}

var (
	roleTab    = []uint64{0, 1, 2, 3, 4, 5, 6, 7, 255, 0xffffffff}
	ssvTypeTab = []uint64{0, 1, 2, 3, 200, ^uint64(0)}
	qbftTab    = []uint64{0, 1, 2, 3, 4, 255, ^uint64(0)}
	ptypeTab   = []uint64{0, 1, 2, 3, 4, 5, 6, 255, ^uint64(0)}
	npartTab   = []int{1, 0, 2, 13, 14}
)

func (w *world) estRound() uint64 {
	since := w.now().Sub(w.netCfg.Beacon.GetSlotStartTime(w.curSlot())).Seconds()
	return 1 + uint64(since)/2
}

// fieldStep: a structurally valid message with every field chosen from a boundary table.
// A = [vi, role, ssvType, qbftType, height, round, signers, just, data, topic, sig, op, id, partial].
func (w *world) fieldStep(s sim.Step) {
	v := w.vals[int(s.Arg(0))%len(w.vals)]
	n, q := v.n, quorumOf(v.n)
	cur := uint64(w.curSlot())
	role := at(roleTab, s.Arg(1))
	ssvType := at(ssvTypeTab, s.Arg(2))
	qt := at(qbftTab, s.Arg(3))
	height := at([]uint64{cur, cur, cur - 1, cur + 1, cur - 33, cur - 40, cur + 3, 0, 1, 1 << 63, 1<<63 - 1, ^uint64(0), cur + 1<<32, cur - 1000, cur - 3, cur - 5, cur + 1<<62, cur + 1<<63, cur + 3<<62}, s.Arg(4)) // the last three wrap slot*12 back to now
	round := at([]uint64{1, w.estRound(), 2, 3, 0, 6, 7, 12, 13, 16, 17, 1 << 63, ^uint64(0), 1<<63 - 1, 1 << 32, w.estRound() + 1, w.estRound() + 2, w.estRound() + 5}, s.Arg(5))
	op, claimed := w.senderOp(s.Arg(11))
	leader := uint64(1)
	if round >= 1 {
		leader = (height%uint64(n)+(round-1)%uint64(n))%uint64(n) + 1
	}
	signers := at([][]uint64{{leader}, {1}, {}, seq(1, 14), {2, 1}, {1, 1}, {0}, {uint64(n + 1)}, seq(1, q), seq(1, n), seq(1, n+1), {^uint64(0)},
		{2}, seq(1, q-1), {3}, {uint64(op)}, {leader, leader}, seq(2, q+1)}, s.Arg(6))
	domain := w.netCfg.Domain
	idPK := v.pk
	switch (s.Arg(12) / 8) % 6 {
	case 4:
		domain[0] ^= 0xff
	case 5:
		idPK = bytes.Repeat([]byte{0xab}, 48) // not a BLS public key
	}
	mid := msgID(domain, idPK, role)
	ident := at([][]byte{mid, mid, mid, {}, msgID(w.netCfg.Domain, w.vals[(int(s.Arg(0))+1)%len(w.vals)].pk, role), bytes.Repeat([]byte{7}, 56), bytes.Repeat([]byte{7}, 57), mid[:20]}, s.Arg(12))
	sig := make([]byte, 96)
	if s.Arg(10)%5 != 1 {
		sig[0], sig[95] = 0xa5, 1
	}
	var data []byte
	desc := ""
	if ssvType == 1 || (ssvType > 1 && s.Arg(13)%2 == 1) {
		pt := at(ptypeTab, s.Arg(13)/2)
		np := at(npartTab, s.Arg(13)/32)
		signer := uint64(op)
		if len(signers) > 0 && s.Arg(6)%18 != 0 {
			signer = signers[0]
		}
		var ps []rawPS
		for i := 0; i < np; i++ {
			m := rawPS{sig: sig, root: []byte{byte(i), 1}, signer: signer}
			switch (s.Arg(13) / 256) % 6 {
			case 1:
				m.root = []byte{9} // duplicate roots
			case 2:
				m.signer = signer + 1
			case 3:
				m.sig = nil // zero partial signature
			}
			ps = append(ps, m)
		}
		data = rawPartial(pt, height, ps, sig, signer)
		desc = fmt.Sprintf("partial type=%d slot=%d n=%d signer=%d", pt, int64(height-cur), np, signer)
	} else {
		full, root := w.fullData(s.Arg(8), height)
		m := rawMsg{typ: qt, height: height, round: round, id: ident, root: root}
		m.rcj, m.pj = w.justifications(s.Arg(7), v, mid, height, round, root, q)
		if qt == uint64(specqbft.RoundChangeMsgType) && s.Arg(7)%11 == 9 {
			m.dataRound = round - 1
		}
		data = rawSigned(sig, signers, m.bytes(), full)
		desc = fmt.Sprintf("qbft type=%d h=%d r=%d signers=%v just=%d/%d full=%d id=%d", qt, int64(height-cur), round, signers, len(m.rcj), len(m.pj), len(full), len(ident))
	}
	payload := rawSSV(ssvType, mid, data)
	if w.prop == "C08" && s.Arg(10)%7 == 6 { // the non-pubsub entry
		w.directStep2(ssvType, mid, data, desc)
		return
	}
	w.d.Fault("gossip-field-boundary")
	w.submit(fmt.Sprintf("field v=%s role=%d ssv=%d %s", v.kind, role, ssvType, desc), w.pickTopic(s.Arg(9), v.pk), w.envelope(payload, op, claimed), "")
}

var dataSelTab = []int{0, 0, 0, 0, 3, 3, 4, 4, 5, 5, 5, 6, 6, 0, 3, 5, 0, 0, 3, 4, 5, 6, 0, 3, 5, 4, 7, 7, 8, 9, 0, 3, 0, 5, 3, 4, 6, 0, 5, 3}

func (w *world) fullData(sel int64, height uint64) (full, root []byte) {
	val := []byte(fmt.Sprintf("byz-value-%d", height%7))
	hash := func(b []byte) []byte { r, _ := specqbft.HashDataRoot(b); return r[:] }
	switch dataSelTab[int(sel%int64(len(dataSelTab)))] { // the multi-megabyte variants are rare: they cost real time
	case 0, 1, 2:
		return val, hash(val)
	case 3:
		return nil, make([]byte, 32)
	case 4:
		return nil, hash(val)
	case 5:
		return val, hash([]byte("other"))
	case 6:
		return []byte{}, hash(nil)
	case 7:
		b := bytes.Repeat([]byte{0x5a}, 1<<20)
		return b, hash(b)
	case 8:
		b := bytes.Repeat([]byte{0x5a}, 5243145) // one over the SSZ maximum
		return b, make([]byte, 32)
	}
	b := bytes.Repeat([]byte{0x5a}, 9<<20) // over every size limit
	return b, make([]byte, 32)
}

// justifications: sel 0 none; 1 quorum of unprepared round-changes; 2 truncated; 3 nested three deep;
// 4 thirteen; 5 fourteen; 6 garbage; 7 oversize entry; 8 prepares only; 9 prepared round-changes with
// a prepare quorum; 10 a round-change with zero signers.
func (w *world) justifications(sel int64, v *valInfo, mid []byte, h, r uint64, root []byte, q int) (rcj, pj [][]byte) {
	sig := make([]byte, 96)
	sig[3] = 1
	one := func(typ uint64, signer []uint64, round, dataRound uint64, rt []byte, inner [][]byte) []byte {
		m := rawMsg{typ: typ, height: h, round: round, id: mid, root: rt, dataRound: dataRound, rcj: inner}
		return rawSigned(sig, signer, m.bytes(), nil)
	}
	zero := make([]byte, 32)
	switch sel % 11 {
	case 1:
		for i := 1; i <= q; i++ {
			rcj = append(rcj, one(3, []uint64{uint64(i)}, r, 0, zero, nil))
		}
	case 2:
		x := one(3, []uint64{1}, r, 0, zero, nil)
		rcj = [][]byte{x[:len(x)/2], x[:107]}
	case 3:
		x := one(3, []uint64{1}, r, 0, zero, [][]byte{one(3, []uint64{2}, r, 0, zero, [][]byte{one(3, []uint64{3}, r, 0, zero, nil)})})
		rcj, pj = [][]byte{x}, [][]byte{x}
	case 4, 5:
		for i := 1; i <= 9+int(sel%11); i++ {
			rcj = append(rcj, one(3, []uint64{uint64(i)}, r, 0, zero, nil))
		}
	case 6:
		rcj, pj = [][]byte{{1, 2, 3}, {}, bytes.Repeat([]byte{0xff}, 200)}, [][]byte{bytes.Repeat([]byte{0}, 108)}
	case 7:
		rcj = [][]byte{bytes.Repeat([]byte{1}, 70000)}
	case 8:
		for i := 1; i <= q; i++ {
			pj = append(pj, one(1, []uint64{uint64(i)}, r, 0, root, nil))
		}
	case 9:
		for i := 1; i <= q; i++ {
			rcj = append(rcj, one(3, []uint64{uint64(i)}, r, r-1, root, nil))
			pj = append(pj, one(1, []uint64{uint64(i)}, r-1, 0, root, nil))
		}
	case 10:
		rcj = [][]byte{one(3, nil, r, r-1, root, nil), one(3, []uint64{1}, r, 1<<63, root, nil)}
		pj = [][]byte{one(1, nil, r, 0, root, nil)}
	}
	return rcj, pj
}
