package valsim

import (
	"github.com/attestantio/go-eth2-client/spec/phase0"
	specqbft "github.com/bloxapp/ssv-spec/qbft"
)

func spectypesSlot(d int64) phase0.Slot { return phase0.Slot(d) }

var kindRule = map[specqbft.MessageType]string{specqbft.ProposalMsgType: "proposal", specqbft.PrepareMsgType: "prepare",
	specqbft.CommitMsgType: "commit", specqbft.RoundChangeMsgType: "round-change"}

// after: mutants that break a per-signer history rule; they only make sense right after the honest
// message they are derived from has been accepted (so the signer's record is at that slot and round).
var after = []mutant{
	{"", func(w *world, h *hmsg) (string, []byte) { // verbatim replay: second message of the type in the round
		if sm := decodeCons(h); sm == nil || !single(sm) {
			return "", nil
		}
		return topicOf(w.vals[h.vi].pk), w.envelope(h.payload, int(h.from), h.from)
	}},
	consMut("", func(w *world, h *hmsg, sm *specqbft.SignedMessage) bool { // same type and round, other root
		sm.Message.Root[0] ^= 0xff
		sm.FullData = nil
		return single(sm) && sm.Message.MsgType != specqbft.ProposalMsgType
	}),
	consMut("history-slot-back", func(w *world, h *hmsg, sm *specqbft.SignedMessage) bool {
		sm.Message.Height--
		if sm.Message.MsgType == specqbft.ProposalMsgType { // keep the sender the leader of the earlier slot
			n := uint64(w.vals[h.vi].n)
			sm.Message.Round++ // leader(h-1, r+1) = leader(h, r)
			if (uint64(sm.Message.Height)%n+(uint64(sm.Message.Round)-1)%n)%n+1 != sm.Signers[0] {
				return false
			}
		}
		return single(sm)
	}),
	consMut("history-slot-back", func(w *world, h *hmsg, sm *specqbft.SignedMessage) bool { // decided for an earlier slot
		sm.Message.Height -= 2
		return !single(sm)
	}),
	consMut("history-round-back", func(w *world, h *hmsg, sm *specqbft.SignedMessage) bool {
		if sm.Message.Round < 2 || sm.Message.MsgType == specqbft.ProposalMsgType {
			return false
		}
		sm.Message.Round--
		return true
	}),
	consMut("history-second-proposal-different-data", func(w *world, h *hmsg, sm *specqbft.SignedMessage) bool {
		if sm.Message.MsgType != specqbft.ProposalMsgType {
			return false
		}
		sm.FullData = append([]byte("another-"), sm.FullData...)
		r, err := specqbft.HashDataRoot(sm.FullData)
		sm.Message.Root = r
		return err == nil
	}),
	// the same rule with data that only differs in LENGTH from the accepted proposal's (the accepted data is a
	// strict prefix of the new one, and the other way round): comparisons that walk one of the two buffers
	// must not depend on where the first difference is (seed C08-s3)
	consMut("history-second-proposal-different-data", func(w *world, h *hmsg, sm *specqbft.SignedMessage) bool {
		if sm.Message.MsgType != specqbft.ProposalMsgType {
			return false
		}
		sm.FullData = append(append([]byte(nil), sm.FullData...), "-and-more"...)
		r, err := specqbft.HashDataRoot(sm.FullData)
		sm.Message.Root = r
		return err == nil
	}),
	consMut("history-second-proposal-different-data", func(w *world, h *hmsg, sm *specqbft.SignedMessage) bool {
		if sm.Message.MsgType != specqbft.ProposalMsgType || len(sm.FullData) < 2 {
			return false
		}
		sm.FullData = append([]byte(nil), sm.FullData[:len(sm.FullData)-1]...)
		r, err := specqbft.HashDataRoot(sm.FullData)
		sm.Message.Root = r
		return err == nil
	}),
}

func (w *world) mutantsAfter(h *hmsg, mask int64) {
	sm := decodeCons(h)
	if sm == nil {
		return
	}
	// the replay rules are named after the message type
	after[0].rule = "history-one-" + kindRule[sm.Message.MsgType] + "-per-round"
	after[1].rule = after[0].rule
	w.runMutants(after, h, mask>>40, "post")
}
