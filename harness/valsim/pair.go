package valsim

// Concurrent validation (the "schedules" part of C09's quantifier): two gossip messages are validated
// by two goroutines at the same simulated instant. The only storage call inside ValidatePubsubMessage -
// the operator-key lookup of the envelope check, on a cold key cache - sits exactly between the
// per-signer "check" and "update"; the request goroutines park there (FaultDB.Yield) and this goroutine
// decides from the step's sub-seed who proceeds, recognising a goroutine that waits for the
// per-message-id mutex from its runtime wait reason. Runs inside the bubble (fake clock); the scheduler
// never sleeps (a goroutine waiting for a mutex is not durably blocked, fake time would not advance).

import (
	"context"
	"fmt"
	"runtime"
	"strings"
	"sync"

	specqbft "github.com/bloxapp/ssv-spec/qbft"
	pubsub "github.com/libp2p/go-libp2p-pubsub"
	pspb "github.com/libp2p/go-libp2p-pubsub/pb"

	"verifharness/sim"
)

func pairGoid() string {
	b := make([]byte, 64)
	b = b[:runtime.Stack(b, false)]
	f := strings.Fields(string(b))
	if len(f) > 1 {
		return f[1]
	}
	return "?"
}

var pairStackBuf []byte

func pairWaitReasons() map[string]string {
	if pairStackBuf == nil {
		pairStackBuf = make([]byte, 1<<18)
	}
	n := runtime.Stack(pairStackBuf, true)
	for n >= len(pairStackBuf) {
		pairStackBuf = make([]byte, 2*len(pairStackBuf))
		n = runtime.Stack(pairStackBuf, true)
	}
	out := map[string]string{}
	for _, blk := range strings.Split(string(pairStackBuf[:n]), "\n\n") {
		if !strings.HasPrefix(blk, "goroutine ") {
			continue
		}
		f := strings.Fields(blk)
		i, j := strings.Index(blk, "["), strings.Index(blk, "]")
		if len(f) < 3 || i < 0 || j < i {
			continue
		}
		reason := blk[i+1 : j]
		if k := strings.Index(reason, ","); k >= 0 {
			reason = reason[:k]
		}
		out[f[1]] = reason
	}
	return out
}

func pairLockWait(reason string) bool {
	return strings.HasPrefix(reason, "sync.Mutex") || strings.HasPrefix(reason, "sync.RWMutex") || reason == "semacquire"
}

// pairStep: A = [variant, sub-seed]. The head of the honest queue (a single-signer consensus message) is
// gossiped together with (0) a verbatim copy, (1) a message of the same signer, type and round with another
// root, (2) the next queued honest message. For 0 and 1 at most one of the two may be accepted.
func (w *world) pairStep(s sim.Step) {
	if w.prop != "C09" || len(w.queue) == 0 {
		return
	}
	h := w.queue[0]
	sm := decodeCons(h)
	if sm == nil || !single(sm) {
		w.pump(1, 0) // not a candidate: gossip it the ordinary way
		return
	}
	w.queue = w.queue[1:]
	topicA := topicOf(w.vals[h.vi].pk)
	wireA := w.envelope(h.payload, int(h.from), h.from)
	variant := int(s.Arg(0) % 3)
	var hB *hmsg
	topicB, wireB := topicA, append([]byte(nil), wireA...)
	switch variant {
	case 1:
		if t, b := after[1].build(w, h); b != nil {
			topicB, wireB = t, b
		} else {
			variant = 0
		}
	case 2:
		if len(w.queue) == 0 {
			variant = 0
			break
		}
		hB = w.queue[0]
		w.queue = w.queue[1:]
		topicB, wireB = topicOf(w.vals[hB.vi].pk), w.envelope(hB.payload, int(hB.from), hB.from)
	}
	now := w.now()
	wires, topics := [][]byte{wireA, wireB}, []string{topicA, topicB}
	const (
		stNew = iota
		stParked
		stRunning
		stBlocked
		stDone
	)
	type actor struct {
		gate    chan struct{}
		state   int
		verdict string
		gid     string
		parked  int
	}
	acts := []*actor{{gate: make(chan struct{}, 1)}, {gate: make(chan struct{}, 1)}}
	var mu sync.Mutex
	byGid := map[string]*actor{}
	w.fdb.Yield = func(op string) {
		mu.Lock()
		a := byGid[pairGoid()]
		if a == nil {
			mu.Unlock()
			return
		}
		a.state = stParked
		a.parked++
		mu.Unlock()
		<-a.gate
	}
	started := make(chan struct{}, 2)
	for k := range acts {
		go func(k int) {
			a := acts[k]
			mu.Lock()
			a.gid = pairGoid()
			byGid[a.gid] = a
			mu.Unlock()
			started <- struct{}{}
			<-a.gate
			verdict := "panic"
			func() {
				defer func() { _ = recover() }()
				topic := topics[k]
				pm := &pubsub.Message{Message: &pspb.Message{Topic: &topic, Data: wires[k]}, ReceivedFrom: somePeer}
				res := w.mv.ValidatePubsubMessage(context.Background(), somePeer, pm)
				verdict = verdictName[res]
			}()
			mu.Lock()
			a.verdict, a.state = verdict, stDone
			mu.Unlock()
		}(k)
	}
	<-started
	<-started
	settle := func() bool {
		stable := 0
		for spin := 0; spin < 2000000; spin++ {
			busy := false
			reasons := pairWaitReasons()
			mu.Lock()
			for _, a := range acts {
				if a.state == stRunning || a.state == stBlocked {
					if pairLockWait(reasons[a.gid]) {
						a.state = stBlocked
					} else {
						a.state = stRunning
						busy = true
					}
				}
			}
			mu.Unlock()
			if busy {
				stable = 0
			} else if stable++; stable >= 3 {
				return true
			}
			runtime.Gosched()
		}
		return false
	}
	r := sim.NewRand(uint64(s.Arg(1)))
	stuck := false
	for it := 0; it < 200; it++ {
		var cand []int
		blocked, done := 0, 0
		mu.Lock()
		for k, a := range acts {
			switch a.state {
			case stNew, stParked:
				cand = append(cand, k)
			case stBlocked:
				blocked++
			case stDone:
				done++
			}
		}
		mu.Unlock()
		if done == len(acts) {
			break
		}
		if len(cand) == 0 {
			stuck = blocked > 0
			break
		}
		k := cand[r.Intn(len(cand))]
		mu.Lock()
		acts[k].state = stRunning
		mu.Unlock()
		acts[k].gate <- struct{}{}
		if !settle() {
			w.d.Discard = "pair scheduler could not settle"
			return
		}
	}
	w.fdb.Yield = nil
	if stuck {
		w.d.Finding("no-hang", "concurrent-validation-deadlock", "two concurrent ValidatePubsubMessage calls wait for each other (variant %d, %s)", variant, h.kind)
		w.d.Discard = "deadlocked validation goroutines cannot be abandoned inside the bubble"
		return
	}
	w.d.Fault("concurrent-validation")
	if acts[0].parked+acts[1].parked > 0 {
		w.d.Probe("pair-interleaved-at-storage-call")
	}
	w.d.Logf("pair variant=%d %s v=%s role=%s from=%d -> [%s | %s]", variant, h.kind, w.vals[h.vi].kind, h.role, h.from, acts[0].verdict, acts[1].verdict)
	// judged in a canonical order by this goroutine: A, then B, each against the reference record as left by the previous one
	srcs := []string{"pair-A honest " + h.kind, fmt.Sprintf("pair-B variant%d of %s", variant, h.kind)}
	for k := range acts {
		if acts[k].verdict != "accept" {
			continue
		}
		broken, p := w.ref.broken(topics[k], wires[k], now)
		kind := "?"
		if p != nil && p.kind != "" {
			kind = p.kind
		}
		for _, rule := range broken {
			if rule == "topic" && !deliverable[topics[k]] {
				continue
			}
			sig := rule + "/" + kind
			if strings.HasPrefix(rule, "history-") { // the per-signer rules are the ones a race can break
				sig += "/concurrent"
			}
			w.d.Finding("accept-implies-rules", sig, "%s accepted although it breaks rule %q (both of a concurrently validated pair were accepted: [%s | %s]); slot=+%d", srcs[k], rule, acts[0].verdict, acts[1].verdict, int64(w.curSlot())-int64(w.slot0))
		}
		w.ref.record(p)
	}
	// the honest messages continue on their way
	for k, hm := range []*hmsg{h, hB} {
		if hm == nil {
			continue
		}
		if acts[k].verdict == "accept" {
			w.nAcc++
			w.d.Nontriv = w.nAcc >= 6
		}
		w.honest = append(w.honest, hm)
		w.deliver(hm)
	}
	_ = specqbft.FirstRound
}
