package valsim

import (
	"encoding/hex"
	"testing"
	"testing/synctest"
	"time"

	"github.com/attestantio/go-eth2-client/spec/phase0"

	"verifharness/sim"
)

func genConfig(prop string) func(r *sim.Rand, tier string) sim.Config {
	return func(r *sim.Rand, tier string) sim.Config {
		c := sim.Config{
			"big_n":       int64([]int{10, 13}[r.Intn(2)]),
			"fork":        int64(r.Weighted(35, 45, 20)),
			"start_epoch": int64(r.Range(100, 250000)),
			"start_off":   int64(r.Intn(32)),
			"sync_duty":   int64(r.Weighted(1, 4)),
			"prop_duty":   int64(r.Weighted(1, 4)),
			"own_op":      int64(r.Weighted(2, 1, 1) * r.Range(1, 5)),
			"steps":       int64(r.Range(40, 160)),
			"dec_pct":     0,
		}
		if prop == "C08" {
			c["dec_pct"] = int64([]int{0, 10, 10, 30, 100}[r.Intn(5)])
		}
		if tier == "thorough" {
			c["steps"] = int64(r.Range(60, 300))
		}
		return c
	}
}

func (w *world) exec(s sim.Step) {
	switch s.Op {
	case "slot":
		k := s.Arg(0) % 70
		if k < 0 {
			k = 0
		}
		w.sleepUntil(w.netCfg.Beacon.GetSlotStartTime(w.curSlot() + phase0.Slot(k)).Add(time.Duration(s.Arg(1)%12000) * time.Millisecond))
		w.d.Logf("now slot=+%d", int64(w.curSlot())-int64(w.slot0))
	case "adv":
		ms := s.Arg(0) % 600000
		if ms > 0 {
			w.sleepUntil(w.now().Add(time.Duration(ms) * time.Millisecond))
		}
	case "duty":
		w.duty(abs(s.Arg(0)), abs(s.Arg(1)), s.Arg(2))
	case "pump":
		w.pump(abs(s.Arg(0))%40, s.Arg(1))
	case "pair":
		w.pairStep(absStep(s))
	case "timeout":
		w.timeoutStep(abs(s.Arg(0)), abs(s.Arg(1)), s.Arg(2))
	case "partial":
		w.partialStep(abs(s.Arg(0)), abs(s.Arg(1)), int64(abs(s.Arg(2))), s.Arg(3))
	case "raw":
		w.rawStep(absStep(s))
	case "bytemut":
		w.byteMutStep(absStep(s))
	case "field":
		w.fieldStep(absStep(s))
	case "direct":
		w.directStep(absStep(s))
	case "dec":
		w.decStep(absStep(s))
	}
}

func abs(v int64) int {
	if v < 0 {
		v = -v
	}
	if v < 0 {
		return 0
	}
	return int(v % (1 << 30))
}

func absStep(s sim.Step) sim.Step {
	o := sim.Step{Op: s.Op, S: s.S, A: make([]int64, len(s.A))}
	for i, v := range s.A {
		if v < 0 {
			v = -(v + 1)
		}
		o.A[i] = v
	}
	return o
}

func i64(r *sim.Rand) int64 { return int64(r.U64() >> 2) }

func (w *world) gen(r *sim.Rand) *sim.Step {
	cfg := w.d.Cfg
	if int64(len(w.d.Steps)) >= cfg.Get("steps", 80) {
		return nil
	}
	if r.Pct(cfg.Get("dec_pct", 0)) {
		return w.genDec(r)
	}
	if w.prop == "C09" && len(w.queue) > 0 && w.forkActive() && r.Pct(12) {
		return &sim.Step{Op: "pair", A: []int64{int64(r.Weighted(4, 4, 2)), i64(r)}}
	}
	if len(w.queue) > 0 && r.Pct(55) {
		mask := int64(-1) // all mutants in a quarter of the pumps, a random quarter / eighth of them otherwise (RSA re-signing dominates the cost)
		if r.Pct(75) {
			mask = i64(r) & i64(r)
			if r.Pct(66) {
				mask &= i64(r)
			}
		}
		return &sim.Step{Op: "pump", A: []int64{int64(r.Range(1, 12)), mask}}
	}
	inj := 30
	if w.prop == "C08" {
		inj = 60
	}
	switch r.Weighted(14, 8, 4, 7, 5, inj) {
	case 0:
		return &sim.Step{Op: "duty", A: []int64{int64(r.Weighted(45, 20, 8, 27)), int64(r.Intn(nConsensusRoles)), int64(r.Intn(3))}}
	case 1:
		k := int64(r.Weighted(30, 40, 10, 5))
		if k == 3 {
			k = int64(r.Range(3, 69))
		}
		return &sim.Step{Op: "slot", A: []int64{k, int64(r.Weighted(3, 1, 1) * r.Intn(6000))}}
	case 2:
		return &sim.Step{Op: "adv", A: []int64{int64([]int{1, 50, 900, 2000, 4000, 13000, 130000}[r.Intn(7)])}}
	case 3:
		if w.prop == "C09" && len(w.lastConsOrder) > 0 && r.Chance(0.5) {
			// a post-consensus message of a signer whose consensus message was accepted last (same validator, role):
			// other traffic of a signer must not disturb its consensus record
			h := w.lastConsOrder[len(w.lastConsOrder)-1-r.Intn(min(len(w.lastConsOrder), 4))]
			ri := 0
			for i, ro := range roles {
				if ro == h.role {
					ri = i
				}
			}
			return &sim.Step{Op: "partial", A: []int64{int64(h.vi), int64(ri), int64(h.from) - 1, 1}}
		}
		return &sim.Step{Op: "partial", A: []int64{int64(r.Intn(4)), int64(r.Intn(len(roles))), int64(r.Intn(13)), int64(r.Intn(2))}}
	case 4:
		return &sim.Step{Op: "timeout", A: []int64{int64(r.Intn(4)), int64(r.Intn(nConsensusRoles)), int64(r.Weighted(2, 1) * r.Intn(1<<13))}}
	}
	return w.genInject(r)
}

func (w *world) genInject(r *sim.Rand) *sim.Step {
	switch r.Weighted(55, 20, 10, 5) {
	case 1:
		if len(w.honest) > 0 {
			return &sim.Step{Op: "bytemut", A: []int64{int64(r.Intn(len(w.honest))), int64(r.Intn(3)), int64(r.Intn(6)), i64(r) % 4096, int64(r.Intn(256)), int64(r.Weighted(6, 1, 1) * r.Intn(64))}}
		}
	case 2:
		n := []int{0, 1, 7, 60, 68, 69, 108, 264, 265, 400, 1500}[r.Intn(11)]
		return &sim.Step{Op: "raw", S: []string{hex.EncodeToString(r.Bytes(n))}, A: []int64{int64(r.Intn(4)), int64(r.Intn(64)), int64(r.Intn(8)), int64(r.Intn(14)), int64(r.Intn(3)), int64(r.Intn(8))}}
	case 3:
		if len(w.honest) > 0 && w.prop == "C08" {
			return &sim.Step{Op: "direct", A: []int64{int64(r.Intn(len(w.honest))), int64(r.Intn(15)), int64(r.Intn(6)), i64(r) % 4096, int64(r.Intn(256))}}
		}
	}
	// field step: a plausible message (selectors that give a valid one) with 0-3 fields pushed to table values
	a := make([]int64, 14)
	a[0] = int64(r.Weighted(8, 1) * r.Intn(8))
	if a[0] == 0 {
		a[0] = int64(r.Intn(4))
	}
	a[1] = int64(r.Intn(nConsensusRoles))
	a[3] = int64(r.Intn(4))
	a[5] = int64(r.Intn(2))
	a[6] = []int64{0, 15, 15, 15}[a[3]]
	if a[3] == 2 && r.Pct(40) {
		a[6] = int64(8 + r.Intn(2))
	}
	a[11] = int64(r.Intn(4))
	for k := r.Weighted(15, 45, 30, 10); k > 0; k-- {
		f := r.Intn(14)
		a[f] = int64(r.Intn(1 << 12))
	}
	return &sim.Step{Op: "field", A: a}
}

func (w *world) genDec(r *sim.Rand) *sim.Step {
	s := &sim.Step{Op: "dec", A: []int64{int64(r.Intn(len(decoderNames))), int64(r.Weighted(2, 5, 3)), int64(r.Intn(6)), i64(r) % 100000, int64(r.Intn(256)), int64(r.Intn(4))}}
	if s.A[1] == 0 {
		s.S = []string{hex.EncodeToString(r.Bytes([]int{0, 1, 8, 40, 263, 264, 300, 2000}[r.Intn(8)]))}
	}
	return s
}

func run(prop string) func(t *testing.T, d *sim.D) {
	return func(t *testing.T, d *sim.D) {
		startWatchdog()
		synctest.Test(t, func(t *testing.T) {
			w := newWorld(d, prop)
			d.Logf("world prop=%s fork=%d big=%d epoch=%d", prop, d.Cfg.Get("fork", 0), d.Cfg.Get("big_n", 0), d.Cfg.Get("start_epoch", 0))
			for {
				s, ok := d.Next(w.gen)
				if !ok {
					break
				}
				w.exec(s)
			}
			d.Logf("end honest=%d calls=%d hist=%s", len(w.honest), w.calls, w.ref.histSummary())
		})
	}
}
