// vcheck: orchestrator. Builds nothing itself (run.sh builds the simulator test binary), spawns
// worker processes, aggregates their summaries, confirms violations in a fresh process, applies
// the known-findings file, writes evidence/<id>.json and prints the contract lines.
//
// exit 0: property held on everything explored (or only listed known findings)
// exit 1: VIOLATION property=<id> replay=<path>
// exit 2: infrastructure trouble (build, worker death, nondeterminism) — never a VIOLATION
package main

import (
	"encoding/json"
	"flag"
	"fmt"
	"os"
	"os/exec"
	"path/filepath"
	"sort"
	"strconv"
	"strings"
	"sync"
	"time"

	"verifharness/sim"
)

type finding struct {
	Status    string `json:"status"` // known | fixed
	Property  string `json:"property"`
	Invariant string `json:"invariant,omitempty"`
	Signature string `json:"signature,omitempty"`
	Commit    string `json:"commit,omitempty"`
	What      string `json:"what"`
	Line      string `json:"line,omitempty"`
}

func infra(format string, a ...any) {
	fmt.Printf("INFRA-ERROR "+format+"\n", a...)
	os.Exit(2)
}

func main() {
	prop := flag.String("prop", "", "property id")
	tier := flag.String("tier", "quick", "quick|thorough")
	bin := flag.String("bin", "", "simulator test binary")
	mode := flag.String("mode", "batch", "batch|replay|det")
	replay := flag.String("replay", "", "replay file")
	runs := flag.Int64("runs", 100, "total runs")
	budget := flag.Int64("budget", 600, "wall budget per worker (s)")
	workers := flag.Int("workers", 16, "worker processes")
	level := flag.String("level", "exploration", "evidence level")
	verif := flag.String("verif", "/verif", "verif dir")
	out := flag.String("out", "", "directory for evidence/ and replays/ (default: the verif dir)")
	memKB := flag.Int64("memkb", 6*1024*1024, "ulimit -v per worker (KB)")
	flag.Parse()
	if *out == "" {
		*out = *verif
	}

	seed := uint64(1)
	if v := os.Getenv("VERIF_SEED"); v != "" {
		if n, err := strconv.ParseUint(v, 10, 64); err == nil {
			seed = n
		} else if n, err := strconv.ParseInt(v, 10, 64); err == nil {
			seed = uint64(n)
		}
	}
	fmt.Printf("vcheck property=%s tier=%s seed=%d mode=%s\n", *prop, *tier, seed, *mode)

	switch *mode {
	case "replay":
		os.Exit(doReplay(*bin, *replay, *verif))
	case "det":
		os.Exit(doDet(*bin, *prop, *tier, seed, *runs))
	}

	start := time.Now()
	tmp, err := os.MkdirTemp(filepath.Join(*verif, ".build"), "w-"+*prop+"-")
	if err != nil {
		infra("mkdtemp: %v", err)
	}
	defer os.RemoveAll(tmp)
	replayDir := filepath.Join(*out, "replays")
	_ = os.MkdirAll(replayDir, 0o755)

	var wg sync.WaitGroup
	errs := make([]string, *workers)
	for w := 0; w < *workers; w++ {
		wg.Add(1)
		go func(w int) {
			defer wg.Done()
			out := filepath.Join(tmp, fmt.Sprintf("sum-%d.json", w))
			// one OS process per worker, virtual-memory cap, generous go test timeout
			sh := fmt.Sprintf("ulimit -v %d; exec %s -test.run '^TestWorker$' -test.cpu 1 -test.timeout 8h -test.count 1", *memKB, *bin)
			cmd := exec.Command("bash", "-c", sh)
			cmd.Env = append(os.Environ(),
				"VERIF_MODE=batch", "VERIF_PROP="+*prop, "VERIF_TIER="+*tier,
				"VERIF_SEED="+strconv.FormatUint(seed, 10),
				fmt.Sprintf("VERIF_WORKER=%d", w), fmt.Sprintf("VERIF_NWORKERS=%d", *workers),
				fmt.Sprintf("VERIF_RUNS=%d", *runs), fmt.Sprintf("VERIF_BUDGET_S=%d", *budget),
				"VERIF_OUT="+out, "VERIF_REPLAY_DIR="+replayDir, "GOMAXPROCS=2")
			logf, _ := os.Create(filepath.Join(tmp, fmt.Sprintf("log-%d.txt", w)))
			cmd.Stdout, cmd.Stderr = logf, logf
			done := make(chan error, 1)
			if err := cmd.Start(); err != nil {
				errs[w] = err.Error()
				return
			}
			go func() { done <- cmd.Wait() }()
			select {
			case err := <-done:
				if err != nil {
					errs[w] = fmt.Sprintf("worker %d: %v", w, err)
				}
			case <-time.After(time.Duration(*budget)*time.Second + 4*time.Minute):
				_ = cmd.Process.Kill()
				errs[w] = fmt.Sprintf("worker %d: watchdog timeout", w)
			}
			logf.Close()
		}(w)
	}
	wg.Wait()
	for w, e := range errs {
		if e != "" {
			b, _ := os.ReadFile(filepath.Join(tmp, fmt.Sprintf("log-%d.txt", w)))
			tail := string(b)
			if len(tail) > 3000 {
				tail = tail[len(tail)-3000:]
			}
			fmt.Println(tail)
			infra("%s", e)
		}
	}

	// aggregate
	agg := &sim.Summary{Faults: sim.Counts{}, Probes: sim.Counts{}, DiscardWhy: sim.Counts{}}
	sigs := map[uint64]struct{}{}
	states := map[uint64]struct{}{}
	for w := 0; w < *workers; w++ {
		b, err := os.ReadFile(filepath.Join(tmp, fmt.Sprintf("sum-%d.json", w)))
		if err != nil {
			infra("worker %d wrote no summary: %v", w, err)
		}
		s := &sim.Summary{}
		if err := json.Unmarshal(b, s); err != nil {
			infra("worker %d summary: %v", w, err)
		}
		if s.InfraError != "" {
			infra("worker %d: %s", w, s.InfraError)
		}
		agg.Sim, agg.Real, agg.Stub, agg.Rule, agg.Assumptions = s.Sim, s.Real, s.Stub, s.Rule, s.Assumptions
		agg.Runs += s.Runs
		agg.Discarded += s.Discarded
		agg.DiscardWhy.Add(s.DiscardWhy)
		agg.Steps += s.Steps
		agg.SimTimeMs += s.SimTimeMs
		agg.Faults.Add(s.Faults)
		agg.Probes.Add(s.Probes)
		agg.DetChecked += s.DetChecked
		agg.DetMismatch = append(agg.DetMismatch, s.DetMismatch...)
		agg.BudgetHit = agg.BudgetHit || s.BudgetHit
		for _, x := range s.TraceSigs {
			sigs[x] = struct{}{}
		}
		for _, x := range s.States {
			states[x] = struct{}{}
		}
		if len(agg.Samples) < 3 {
			agg.Samples = append(agg.Samples, s.Samples...)
		}
		agg.Violations = append(agg.Violations, s.Violations...)
	}
	wall := time.Since(start).Seconds()
	if len(agg.DetMismatch) > 0 {
		infra("determinism self-test failed for seeds %v (harness defect; nothing is reported)", agg.DetMismatch)
	}
	if agg.Runs == 0 {
		infra("no runs executed")
	}

	// known findings
	var kf struct {
		Findings []finding `json:"findings"`
	}
	if b, err := os.ReadFile(filepath.Join(*verif, "known_findings.json")); err == nil {
		if err := json.Unmarshal(b, &kf); err != nil {
			infra("known_findings.json: %v", err)
		}
	}
	isKnown := func(v sim.Violation) *finding {
		for i := range kf.Findings {
			f := &kf.Findings[i]
			if f.Status == "known" && f.Property == *prop && f.Invariant == v.Invariant && f.Signature == v.Signature {
				return f
			}
		}
		return nil
	}

	sort.Slice(agg.Violations, func(i, j int) bool { return agg.Violations[i].Steps < agg.Violations[j].Steps })
	exit := 0
	knownSeen := map[string]int{}
	var unknown []sim.ViolationRec
	var notRepro []string
	confirmed := map[string]int{}
	for _, v := range agg.Violations {
		// every worker reports each class once; three confirmed instances per class are enough (a replay can
		// be as expensive as the run that found it)
		class := v.Violation.Invariant + "|" + v.Violation.Signature
		if confirmed[class] >= 3 {
			continue
		}
		// confirm in a fresh process: same violation, same event-log hash
		res, err := replayOnce(*bin, v.Replay)
		if err != nil {
			infra("replay of %s failed to run: %v", v.Replay, err)
		}
		if res.Violation == nil || res.Violation.Invariant != v.Violation.Invariant || res.Violation.Signature != v.Violation.Signature || res.LogHash != v.LogHash {
			// never reported: a violation whose replay file does not reproduce it exactly in a fresh process
			// (the code under test behaves nondeterministically there, or the harness does)
			nr := fmt.Sprintf("%s (got %+v hash %.12s, want %s/%s hash %.12s)", v.Replay, res.Violation, res.LogHash, v.Violation.Invariant, v.Violation.Signature, v.LogHash)
			if isKnown(v.Violation) != nil {
				// an instance of a listed finding: nothing new would be reported either way
				fmt.Printf("NOT-REPORTED (instance of a known finding, replay does not reproduce exactly): %s\n", nr)
				continue
			}
			notRepro = append(notRepro, nr)
			continue
		}
		confirmed[class]++
		if f := isKnown(v.Violation); f != nil {
			knownSeen[f.Invariant+"|"+f.Signature]++
			continue
		}
		unknown = append(unknown, v)
	}
	for i := range kf.Findings {
		f := &kf.Findings[i]
		if f.Status == "known" && f.Property == *prop {
			fmt.Printf("KNOWN-FINDING: property=%s %s [%s/%s] (reproduced %d times in this run)\n", f.Property, f.What, f.Invariant, f.Signature, knownSeen[f.Invariant+"|"+f.Signature])
		}
	}
	if len(notRepro) > 0 && len(unknown) == 0 {
		infra("%d violation(s) found but none reproduces exactly from its replay file, e.g. %s: nothing is reported", len(notRepro), notRepro[0])
	}
	for _, nr := range notRepro {
		fmt.Printf("NOT-REPORTED (replay does not reproduce exactly): %s\n", nr)
	}
	for _, v := range unknown {
		fmt.Printf("VIOLATION property=%s replay=%s\n", *prop, v.Replay)
		fmt.Printf("  invariant=%s signature=%s seed=%d steps=%d (from %d)\n  %s\n", v.Violation.Invariant, v.Violation.Signature, v.Seed, v.Steps, v.OrigSteps, v.Violation.Text)
		exit = 1
	}

	// evidence
	zero := []string{}
	for _, k := range sim.SortedKeys(agg.Probes) {
		if agg.Probes[k] == 0 {
			zero = append(zero, k)
		}
	}
	if len(agg.Samples) == 0 {
		agg.Samples = []any{"no non-trivial run in this batch"}
	}
	ev := map[string]any{
		"property_id": *prop, "tier": *tier, "seed": seed, "level": *level,
		"coverage": map[string]any{
			"evaluations":            agg.Runs,
			"distinct_nontrivial":    len(sigs),
			"rule":                   agg.Rule,
			"samples":                agg.Samples,
			"states":                 len(states),
			"steps_executed":         agg.Steps,
			"simulated_time_s":       float64(agg.SimTimeMs) / 1000,
			"runs_per_hour":          float64(agg.Runs) / wall * 3600,
			"faults_fired":           agg.Faults,
			"probes":                 agg.Probes,
			"runs_discarded":         agg.Discarded,
			"discard_reasons":        agg.DiscardWhy,
			"determinism_rechecked":  agg.DetChecked,
			"determinism_mismatches": len(agg.DetMismatch),
			"wall_budget_hit":        agg.BudgetHit,
			"real_components":        agg.Real,
			"stub_components":        agg.Stub,
			"simulator":              agg.Sim,
			"workers":                *workers,
			"known_findings_seen":    knownSeen,
			"exhaustive":             false,
		},
		"assumptions": agg.Assumptions,
		"wall_s":      wall,
		"violations":  len(unknown),
	}
	b, _ := json.MarshalIndent(ev, "", " ")
	_ = os.MkdirAll(filepath.Join(*out, "evidence"), 0o755)
	if err := os.WriteFile(filepath.Join(*out, "evidence", *prop+".json"), b, 0o644); err != nil {
		infra("write evidence: %v", err)
	}
	fmt.Printf("summary property=%s runs=%d discarded=%d steps=%d distinct_traces=%d states=%d sim_time=%.0fs wall=%.1fs runs/h=%.0f det_rechecked=%d\n",
		*prop, agg.Runs, agg.Discarded, agg.Steps, len(sigs), len(states), float64(agg.SimTimeMs)/1000, wall, float64(agg.Runs)/wall*3600, agg.DetChecked)
	fmt.Printf("faults: %s\nprobes: %s\n", fmtCounts(agg.Faults), fmtCounts(agg.Probes))
	if len(zero) > 0 {
		fmt.Printf("WARNING probes at zero: %s\n", strings.Join(zero, ","))
	}
	os.Exit(exit)
}

func fmtCounts(c sim.Counts) string {
	var sb strings.Builder
	for _, k := range sim.SortedKeys(c) {
		fmt.Fprintf(&sb, "%s=%d ", k, c[k])
	}
	return sb.String()
}

type replayRes struct {
	LogHash   string         `json:"log_hash"`
	Violation *sim.Violation `json:"violation"`
	Steps     int            `json:"steps"`
}

func replayOnce(bin, path string) (*replayRes, error) {
	rf, err := sim.ReadReplay(path)
	if err != nil {
		return nil, err
	}
	out, err := os.CreateTemp("", "vreplay-*.json")
	if err != nil {
		return nil, err
	}
	out.Close()
	defer os.Remove(out.Name())
	cmd := exec.Command(bin, "-test.run", "^TestWorker$", "-test.cpu", "1", "-test.timeout", "1h", "-test.count", "1")
	cmd.Env = append(os.Environ(), "VERIF_MODE=replay", "VERIF_PROP="+rf.Property, "VERIF_REPLAY="+path, "VERIF_OUT="+out.Name())
	o, err := cmd.CombinedOutput()
	if os.Getenv("VERIF_VERBOSE") != "" {
		fmt.Println(string(o))
	}
	if err != nil {
		return nil, fmt.Errorf("%v: %s", err, tailStr(string(o), 2000))
	}
	b, err := os.ReadFile(out.Name())
	if err != nil {
		return nil, err
	}
	r := &replayRes{}
	if err := json.Unmarshal(b, r); err != nil {
		return nil, fmt.Errorf("%v: %s", err, tailStr(string(o), 2000))
	}
	return r, nil
}

func tailStr(s string, n int) string {
	if len(s) > n {
		return s[len(s)-n:]
	}
	return s
}

func doReplay(bin, path, verif string) int {
	rf, err := sim.ReadReplay(path)
	if err != nil {
		infra("%v", err)
	}
	r, err := replayOnce(bin, path)
	if err != nil {
		infra("%v", err)
	}
	fmt.Printf("replay %s: steps=%d log_hash=%s\n", path, r.Steps, r.LogHash)
	if r.Violation == nil {
		fmt.Println("no violation on this tree")
		if rf.Violation != nil {
			fmt.Printf("(recorded violation was: %s/%s)\n", rf.Violation.Invariant, rf.Violation.Signature)
		}
		return 0
	}
	fmt.Printf("VIOLATION property=%s replay=%s\n  invariant=%s signature=%s\n  %s\n", rf.Property, path, r.Violation.Invariant, r.Violation.Signature, r.Violation.Text)
	if rf.EventLog != "" && rf.EventLog != r.LogHash {
		fmt.Printf("  note: event-log hash differs from the recorded one (%s): the code under test changed or the harness is nondeterministic\n", rf.EventLog)
	}
	return 1
}

// doDet: same seeds in many processes at GOMAXPROCS 1/4/16, event-log hashes must all agree.
func doDet(bin, prop, tier string, seed uint64, runs int64) int {
	type res map[string]string
	var all []res
	var mu sync.Mutex
	var wg sync.WaitGroup
	procs := []int{1, 4, 16, 1, 4, 16}
	fail := ""
	for i, p := range procs {
		wg.Add(1)
		go func(i, p int) {
			defer wg.Done()
			out, _ := os.CreateTemp("", "vdet-*.json")
			out.Close()
			defer os.Remove(out.Name())
			cmd := exec.Command(bin, "-test.run", "^TestWorker$", "-test.cpu", strconv.Itoa(p), "-test.timeout", "2h", "-test.count", "1")
			cmd.Env = append(os.Environ(), "VERIF_MODE=det", "VERIF_PROP="+prop, "VERIF_TIER="+tier, "VERIF_SEED="+strconv.FormatUint(seed, 10),
				fmt.Sprintf("VERIF_RUNS=%d", runs), "VERIF_OUT="+out.Name(), fmt.Sprintf("GOMAXPROCS=%d", p))
			o, err := cmd.CombinedOutput()
			mu.Lock()
			defer mu.Unlock()
			if err != nil {
				fail = fmt.Sprintf("%v: %s", err, tailStr(string(o), 1500))
				return
			}
			b, _ := os.ReadFile(out.Name())
			r := res{}
			if err := json.Unmarshal(b, &r); err != nil {
				fail = err.Error()
				return
			}
			all = append(all, r)
		}(i, p)
	}
	wg.Wait()
	if fail != "" {
		infra("detcheck: %s", fail)
	}
	bad := 0
	for _, r := range all[1:] {
		for k, v := range all[0] {
			if r[k] != v {
				fmt.Printf("DETERMINISM MISMATCH property=%s seed=%s\n", prop, k)
				bad++
			}
		}
	}
	fmt.Printf("detcheck property=%s seeds=%d processes=%d mismatches=%d\n", prop, len(all[0]), len(all), bad)
	if bad > 0 {
		return 2
	}
	return 0
}
