package regsim

import (
	"fmt"
	"math/big"
	"testing"

	"github.com/bloxapp/ssv/storage/basedb"

	"verifharness/sim"
)

var bigOne = big.NewInt(1)

func firstDiff(a, b string) string {
	la, lb := splitLines(a), splitLines(b)
	for i := 0; i < len(la) || i < len(lb); i++ {
		x, y := "", ""
		if i < len(la) {
			x = la[i]
		}
		if i < len(lb) {
			y = lb[i]
		}
		if x != y {
			return fmt.Sprintf("node: %q / expected: %q", x, y)
		}
	}
	return ""
}

func splitLines(s string) []string {
	var out []string
	cur := ""
	for _, c := range s {
		if c == '\n' {
			out = append(out, cur)
			cur = ""
		} else {
			cur += string(c)
		}
	}
	return out
}

func classify(diff string) string {
	for _, k := range []string{"own=", "op ", "share ", "owner ", "keys ", "stored-unusable "} {
		if len(diff) > 7 && (contains(diff, "\""+k)) {
			return k[:len(k)-1]
		}
	}
	return "other"
}

func contains(s, sub string) bool {
	for i := 0; i+len(sub) <= len(s); i++ {
		if s[i:i+len(sub)] == sub {
			return true
		}
	}
	return false
}

// ---- C11

func runC11(t *testing.T, d *sim.D) {
	initOnce()
	enterBubble(t, func() { c11(d) })
}

func c11(d *sim.D) {
	db, closeDB := openDB(d)
	defer closeDB()
	s := newScript(d)
	n, err := boot(db)
	if err != nil {
		d.Discard = "boot failed: " + err.Error()
		return
	}
	check := func(when string) {
		got, want := dumpNode(n, nOwners), s.m.dump(nOwners)
		if got != want {
			diff := firstDiff(got, want)
			d.Violate("registry-differs-from-rules", classify(diff), "after %s: %s", when, diff)
			return
		}
		// in-memory view == database: a freshly constructed node on the same database shows the same
		fresh, err := boot(db)
		if err != nil {
			d.Violate("restart-fails", "boot", "a fresh node cannot be constructed on the database after %s: %v", when, err)
			return
		}
		if f := dumpNode(fresh, nOwners); f != got {
			d.Violate("memory-differs-from-database", classify(firstDiff(got, f)), "after %s the running node and a node freshly loaded from the same database differ: %s", when, firstDiff(got, f))
		}
	}
	for {
		st, ok := d.Next(s.genStep)
		if !ok {
			break
		}
		switch st.Op {
		case "block":
			b := s.closeBlock(st.Arg(0))
			if b == nil {
				continue
			}
			last, err := n.feed(b.num, b.logs)
			d.Logf("block %d events=%d err=%v last=%d", b.num, len(b.logs), err != nil, last)
			if err != nil {
				d.Violate("block-rejected", "error", "fault-free processing of block %d failed: %v", b.num, err)
				return
			}
			check(fmt.Sprintf("block %d", b.num))
			d.State("eh", "block", fmt.Sprintf("ops=%d shares=%d own=%d", len(s.m.operators), len(s.m.shares), s.m.ownID))
		case "restart":
			if len(s.pending.logs) > 0 {
				continue
			}
			d.Fault("restart")
			if n, err = boot(db); err != nil {
				d.Violate("restart-fails", "boot", "restart failed: %v", err)
				return
			}
			check("restart")
		case "inferior":
			if len(s.blocks) == 0 || len(s.pending.logs) > 0 {
				continue
			}
			c11Inferior(d, s, n, st)
			check("inferior block")
		default:
			s.exec(st)
		}
		if d.V != nil {
			return
		}
	}
	if d.V == nil && len(s.blocks) > 0 {
		c11Batching(d, s, db)
	}
	d.Nontriv = len(s.blocks) >= 2 && len(s.m.shares) > 0
}

func c11Inferior(d *sim.D, s *script, n *node, st sim.Step) {
	old := s.blocks[len(s.blocks)-1]
	num := old.num - uint64(st.Arg(0))%old.num
	logs := cloneLogs(old.logs)
	if st.Arg(1)%2 == 1 { // the execution client emits a BlockLogs entry for log-less ranges too
		logs = nil
		d.Probe("inferior-block-without-logs")
	}
	_, err := n.feed(num, logs)
	d.Fault("inferior-block")
	d.Logf("inferior block %d err=%v", num, err != nil)
	if !isInferior(err) {
		d.Violate("inferior-block-accepted", "no-error", "block %d (last processed %d) was not refused with ErrInferiorBlock: err=%v", num, old.num, err)
	}
}

// c11Batching: the same event sequence under other partitions into blocks must end in the same state.
func c11Batching(d *sim.D, s *script, ref basedb.Database) {
	want := sim.DumpDB(ref, skipVolatile)
	var all []int // block index per event, original partition
	for bi, b := range s.blocks {
		for range b.logs {
			all = append(all, bi)
		}
	}
	if len(all) < 2 {
		return
	}
	lastNum := s.blocks[len(s.blocks)-1].num
	for variant := 0; variant < 2; variant++ {
		db2 := sim.NewMemDB()
		n2, err := boot(db2)
		if err != nil {
			return
		}
		// variant 0: every event in its own block; variant 1: everything in one block
		num := uint64(1)
		var cur []int
		emit := func(idx []int, final bool) bool {
			if len(idx) == 0 {
				return true
			}
			logs := cloneLogs(pick(s, idx))
			bn := num
			if final {
				bn = lastNum
			}
			num++
			if _, err := n2.feed(bn, logs); err != nil {
				d.Violate("batching-dependence", "error", "re-partitioned log fails at block %d: %v", bn, err)
				return false
			}
			return true
		}
		for i := range all {
			cur = append(cur, i)
			if variant == 0 || i == len(all)-1 {
				if !emit(cur, i == len(all)-1) {
					return
				}
				cur = nil
			}
		}
		d.Probe("batching-variant-checked")
		if got := sim.DumpDB(db2, skipVolatile); got != want {
			d.Violate("batching-dependence", fmt.Sprintf("variant%d", variant), "the same %d events partitioned differently (variant %d: %s) end in a different database: %s", len(all), variant, []string{"one event per block", "all in one block"}[variant], firstDiff(got, want))
			return
		}
	}
}

func pick(s *script, idx []int) []ethLog {
	var flat []ethLog
	for _, b := range s.blocks {
		flat = append(flat, b.logs...)
	}
	out := make([]ethLog, 0, len(idx))
	for _, i := range idx {
		out = append(out, flat[i])
	}
	return out
}

// ---- C12

type outcome struct {
	final  string // canonical dump through the getters
	raw    string // raw database dump (volatile keys skipped)
	points int
	ops    []string
	fired  string
	crash  bool
	errRet bool
}

// execute runs the whole program once with at most one fault; after the fault it restarts on the
// surviving database and resumes from the recorded last processed block.
const faultStaleBlock = 9 // not a storage fault: see the end of c12Execute

func c12Execute(d *sim.D, steps []sim.Step, at, mode int, log bool) (*outcome, string) {
	inner, closeDB := openDB(d)
	defer closeDB()
	fdb := sim.NewFaultDB(inner)
	// interruption points are counted from the first block on (the node is up and idle)
	d2 := d
	if !log {
		d2 = sim.NewReplayD(d.Prop, d.Tier, d.Seed, d.Cfg, nil)
	}
	s := newScript(d2)
	n, err := boot(fdb)
	if err != nil {
		return nil, "boot: " + err.Error()
	}
	fdb.Calls, fdb.Ops, fdb.At, fdb.Mode = 0, nil, at, mode
	if mode == faultStaleBlock {
		fdb.At, fdb.Mode = 0, sim.FaultNone
	}
	out := &outcome{}
	restart := func() string {
		// only committed state survives; every in-memory object is rebuilt
		fdb = sim.NewFaultDB(inner)
		var err error
		if n, err = boot(fdb); err != nil {
			return "restart failed: " + err.Error()
		}
		lastDone := uint64(0)
		if lb, found, err := n.ns.GetLastProcessedBlock(nil); err == nil && found && lb != nil {
			lastDone = lb.Uint64()
		}
		for _, b := range s.blocks { // resume from last processed + 1
			if b.num > lastDone {
				if _, err := n.feed(b.num, cloneLogs(b.logs)); err != nil {
					return fmt.Sprintf("resumed block %d failed: %v", b.num, err)
				}
			}
		}
		return ""
	}
	for _, st := range steps {
		if st.Op != "block" {
			if st.Op != "restart" && st.Op != "inferior" {
				s.exec(st)
			}
			continue
		}
		b := s.closeBlock(st.Arg(0))
		if b == nil {
			continue
		}
		var ferr error
		crash := sim.RunToCrash(func() { _, ferr = n.feed(b.num, cloneLogs(b.logs)) })
		if crash != nil {
			out.crash, out.fired = true, crash.Op
			if why := restart(); why != "" {
				return out, why
			}
		} else if ferr != nil {
			out.errRet, out.fired = true, fdb.Fired
			if why := restart(); why != "" {
				return out, why
			}
		}
	}
	out.points, out.ops = fdb.Calls, fdb.Ops
	if out.crash || out.errRet {
		out.points = 0
	}
	if mode == faultStaleBlock && len(s.blocks) >= 2 {
		// a block that is not newer than the last processed one - here a log-less one, as the execution
		// client emits for empty ranges - must be refused; a restart afterwards resumes where it should
		b := s.blocks[at%(len(s.blocks)-1)]
		if _, err := n.feed(b.num, nil); !isInferior(err) {
			return out, fmt.Sprintf("log-less block %d (last processed %d) was not refused with ErrInferiorBlock: err=%v", b.num, s.blocks[len(s.blocks)-1].num, err)
		}
		out.fired = "stale-empty-block"
		if why := restart(); why != "" {
			return out, why
		}
	}
	// a fresh node on the final database is what a user sees after the next start
	fin, err := boot(sim.NewFaultDB(inner))
	if err != nil {
		return out, "final boot failed: " + err.Error()
	}
	out.final = dumpNode(fin, nOwners) + "|mem:" + dumpNode(n, nOwners)
	out.raw = sim.DumpDB(inner, skipVolatile)
	return out, ""
}

func runC12(t *testing.T, d *sim.D) {
	initOnce()
	enterBubble(t, func() { c12(d) })
}

func c12(d *sim.D) {
	// phase 1: generate the event program (logged), uninterrupted reference run
	s := newScript(d)
	var cp *sim.Step
	for {
		st, ok := d.Next(s.genStep)
		if !ok {
			break
		}
		if st.Op == "crashpoints" { // replay: the recorded fault points
			c := st
			cp = &c
			break
		}
		if st.Op == "block" {
			s.closeBlock(st.Arg(0))
		} else if st.Op != "restart" && st.Op != "inferior" {
			s.exec(st)
		}
	}
	var prog []sim.Step
	for _, st := range d.Steps {
		if st.Op != "crashpoints" {
			prog = append(prog, st)
		}
	}
	ref, why := c12Execute(d, prog, 0, sim.FaultNone, false)
	if ref == nil || why != "" {
		d.Discard = "reference run failed: " + why
		return
	}
	if ref.points == 0 {
		return
	}
	d.Logf("reference run: %d interruption points, %d blocks", ref.points, len(s.blocks))
	// phase 2: the fault points. In generation mode they are drawn here and recorded as one step so
	// that the replay file is self-contained; exhaustive when the budget allows.
	var st sim.Step
	ok := true
	if cp != nil {
		st = *cp
	} else {
		st, ok = d.Next(func(r *sim.Rand) *sim.Step {
			budget := int(d.Cfg.Get("points", 20))
			var a []int64
			if ref.points*3 <= budget*2 {
				for k := 1; k <= ref.points; k++ {
					for m := 1; m <= 3; m++ {
						a = append(a, int64(k), int64(m))
					}
				}
			} else {
				for i := 0; i < budget; i++ {
					k := 1 + r.Intn(ref.points)
					if r.Chance(0.5) { // bias to commit boundaries and out-of-transaction calls
						var cand []int
						for j, op := range ref.ops {
							if op == "txn.Commit" || (len(op) > 3 && op[:3] == "db.") {
								cand = append(cand, j+1)
							}
						}
						if len(cand) > 0 {
							k = cand[r.Intn(len(cand))]
						}
					}
					a = append(a, int64(k), int64(1+r.Intn(3)))
				}
			}
			return &sim.Step{Op: "crashpoints", A: a}
		})
	}
	if !ok {
		return
	}
	// a stale log-less block after the last one, then a restart (every run)
	if got, why := c12Execute(d, prog, len(d.Steps), faultStaleBlock, false); why != "" {
		d.Fault("stale-empty-block")
		d.Violate("inferior-block-accepted", "log-less-block", "%s", why)
		return
	} else if got != nil && got.fired == "stale-empty-block" {
		d.Fault("stale-empty-block")
		if got.final != ref.final {
			d.Violate("state-differs-after-recovery", "stale-empty-block", "a refused stale block followed by a restart changed the final state: %s", firstDiff(got.final, ref.final))
			return
		}
	}
	for i := 0; i+1 < len(st.A); i += 2 {
		k, mode := int(st.A[i]), int(st.A[i+1])
		if k < 1 || k > ref.points || mode < 1 || mode > 3 {
			continue
		}
		got, why := c12Execute(d, prog, k, mode, false)
		op := "?"
		if k-1 < len(ref.ops) {
			op = ref.ops[k-1]
		}
		kind := []string{"", "crash-before", "crash-after", "error"}[mode]
		d.Fault(kind)
		d.Probe("fault-at-" + op)
		d.Logf("fault %s at point %d (%s): crashed=%v error-returned=%v", kind, k, op, got != nil && got.crash, got != nil && got.errRet)
		if why != "" {
			d.Violate("no-recovery-after-fault", kind+"@"+op, "%s at interruption point %d (%s): %s", kind, k, op, why)
			return
		}
		if got.final != ref.final {
			if cl := classify(firstDiff(got.final, ref.final)); cl == "stored-unusable" {
				// every usable key and all registry state agree; key material that cannot sign is left
				// in the account store (containable: recorded as a finding, exploration continues)
				d.Finding("state-differs-after-recovery", "orphan-key-record/"+kind, "%s at interruption point %d (%s), restart and resume: %s", kind, k, op, firstDiff(got.final, ref.final))
				continue
			}
			d.Violate("state-differs-after-recovery", kind+"@"+op, "%s at interruption point %d (%s), restart and resume: final registry state differs from the uninterrupted run: %s", kind, k, op, firstDiff(got.final, ref.final))
			return
		}
		if got.raw != ref.raw {
			d.Probe("diag-raw-database-differs-after-recovery")
		}
		d.State("c12", kind, op)
	}
	d.Nontriv = len(s.blocks) >= 1 && ref.points >= 8
}

var Specs = map[string]*sim.Spec{
	"C11": {Sim: "regsim", GenConfig: genConfig("C11"), Run: runC11,
		Real:        []string{"eth/eventhandler.EventHandler via HandleBlockEventsStream (all 8 event kinds)", "eth/eventparser on ABI-encoded logs built from contract.ContractMetaData", "operator/storage + registry/storage (shares, operators, recipients/nonce, last processed block)", "ekm.NewETHKeyManagerSigner (AddShare/RemoveShare/BumpSlashingProtection) and its signer storage", "operator/keys RSA decrypter", "storage/kv in-memory Badger in 1 of 7 runs"},
		Stub:        []string{"task executor (recorder)", "database engine = sim.MemDB in 6 of 7 runs", "clock (synctest bubble fixed after genesis)", "node bootstrap (8 lines of cli/operator/node.go re-implemented: operator data by public key)"},
		Rule:        "seeded sequences of OperatorAdded/Removed, ValidatorAdded (valid or malformed in exactly one of 12 ways), ValidatorRemoved/Exited, ClusterLiquidated/Reactivated, FeeRecipientUpdated over 3 owners, batched into blocks at random; reference model of the registration rules compared through the node's getters after every block; fresh-node-on-same-database comparison after every block; two re-partitionings of the same log; restarts and inferior blocks. Non-trivial: >=2 blocks and >=1 registered validator; distinct = hash of (block, #operators, #shares, own id) sequence.",
		Assumptions: []string{"the log respects what the contract guarantees (operator ids unique and increasing)", "reference model written from the property statement; default fee recipient of an owner without explicit recipient = owner address"}},
	"C12": {Sim: "regsim", GenConfig: genConfig("C12"), Run: runC12,
		Real:        []string{"as C11", "every basedb call of node storage, key-manager storage and ibft stores goes through the fault-injecting wrapper"},
		Stub:        []string{"as C11", "crash = panic unwinding at the chosen storage call; only committed state of the inner database survives", "resume logic of cli/operator/node.go:setupEventHandling (start at last processed + 1) re-implemented"},
		Rule:        "per generated block sequence: one uninterrupted counting run (M interruption points = every storage call incl. those of the key manager and the decided-history cleanup), then for the chosen points x {crash before, crash after, error}: run to the fault, drop all in-memory objects, reboot on the surviving database, resume from last processed + 1, finish; final state (through getters, on a fresh node and on the running one, plus key-manager accounts) must equal the uninterrupted run. Exhaustive over all points when 3*M fits the per-run budget, otherwise sampled with bias to commit boundaries and out-of-transaction calls. Non-trivial: M >= 8.",
		Assumptions: []string{"durable state = committed transactions of the database engine (process crash, not power loss)", "slashing-protection records are compared only as a diagnostic (C04's subject)"}},
}
