// Package regsim: C11 (registry state is a function of the event log) and C12 (block processing is
// atomic and exactly-once across crashes). Real: eventhandler.EventHandler through
// HandleBlockEventsStream, eventparser on ABI-encoded logs, operator/storage + registry/storage,
// ekm key manager, RSA operator decrypter, ibft stores. Stub: task executor, disk engine (MemDB or
// real in-memory Badger behind the fault-injecting wrapper), clock (synctest bubble).
package regsim

import (
	"bytes"
	"encoding/binary"
	"encoding/hex"
	"fmt"
	"math/big"
	"sort"
	"strings"
	"sync"

	"github.com/attestantio/go-eth2-client/spec/phase0"
	specqbft "github.com/bloxapp/ssv-spec/qbft"
	spectypes "github.com/bloxapp/ssv-spec/types"
	ethabi "github.com/ethereum/go-ethereum/accounts/abi"
	ethcommon "github.com/ethereum/go-ethereum/common"
	ethtypes "github.com/ethereum/go-ethereum/core/types"
	"github.com/ethereum/go-ethereum/crypto"
	"github.com/herumi/bls-eth-go-binary/bls"
	"go.uber.org/zap"

	"github.com/bloxapp/ssv/ekm"
	"github.com/bloxapp/ssv/eth/contract"
	"github.com/bloxapp/ssv/eth/eventhandler"
	"github.com/bloxapp/ssv/eth/eventparser"
	"github.com/bloxapp/ssv/eth/executionclient"
	ibftstorage "github.com/bloxapp/ssv/ibft/storage"
	"github.com/bloxapp/ssv/networkconfig"
	operatordatastore "github.com/bloxapp/ssv/operator/datastore"
	"github.com/bloxapp/ssv/operator/keys"
	nodestorage "github.com/bloxapp/ssv/operator/storage"
	ssvtypes "github.com/bloxapp/ssv/protocol/v2/types"
	registrystorage "github.com/bloxapp/ssv/registry/storage"
	"github.com/bloxapp/ssv/storage/basedb"

	"verifharness/sim"
)

var logger = zap.NewNop()

// ---- process-wide caches of expensive, seed-independent material

var (
	once      sync.Once
	opKey     keys.OperatorPrivateKey
	opPubB64  []byte
	abiC      *ethabi.ABI
	abiOpKey  *ethabi.ABI
	valMu     sync.Mutex
	valCache  = map[int]*valKeys{}
	contractA = ethcommon.HexToAddress("0x4B133c68A084B8A88f72eDCd7944B69c8D545f03")
)

type valKeys struct {
	sk     *bls.SecretKey
	pk     []byte
	shares []*bls.SecretKey // 13 share keys (unrelated keys: the handler only checks its own share)
}

func initOnce() {
	once.Do(func() {
		spectypes.InitBLS()
		k, err := keys.GeneratePrivateKey()
		if err != nil {
			panic(err)
		}
		opKey = k
		opPubB64, err = k.Public().Base64()
		if err != nil {
			panic(err)
		}
		abiC, err = contract.ContractMetaData.GetAbi()
		if err != nil {
			panic(err)
		}
		abiOpKey, err = contract.OperatorPublicKeyMetaData.GetAbi()
		if err != nil {
			panic(err)
		}
	})
}

func detKey(tag string, i, j int) *bls.SecretKey {
	h := crypto.Keccak256([]byte(fmt.Sprintf("verif-%s-%d-%d", tag, i, j)))
	h[0] &= 0x3f // below the group order
	sk := &bls.SecretKey{}
	if err := sk.Deserialize(h); err != nil {
		panic(err)
	}
	return sk
}

func validator(i int) *valKeys {
	valMu.Lock()
	defer valMu.Unlock()
	if v := valCache[i]; v != nil {
		return v
	}
	v := &valKeys{sk: detKey("val", i, 0)}
	v.pk = v.sk.GetPublicKey().Serialize()
	for j := 0; j < 13; j++ {
		v.shares = append(v.shares, detKey("share", i, j))
	}
	valCache[i] = v
	return v
}

func ownerAddr(i int) ethcommon.Address {
	return ethcommon.BytesToAddress(crypto.Keccak256([]byte(fmt.Sprintf("owner-%d", i)))[:20])
}

// ---- ABI log construction

func topicAddr(a ethcommon.Address) ethcommon.Hash { return ethcommon.BytesToHash(a.Bytes()) }
func topicU64(x uint64) ethcommon.Hash {
	var h ethcommon.Hash
	binary.BigEndian.PutUint64(h[24:], x)
	return h
}

func mkLog(event string, topics []ethcommon.Hash, args ...any) ethtypes.Log {
	ev := abiC.Events[event]
	data, err := ev.Inputs.NonIndexed().Pack(args...)
	if err != nil {
		panic(fmt.Sprintf("pack %s: %v", event, err))
	}
	return ethtypes.Log{Address: contractA, Topics: append([]ethcommon.Hash{ev.ID}, topics...), Data: data}
}

var cluster = contract.ISSVNetworkCoreCluster{ValidatorCount: 1, NetworkFeeIndex: 1, Index: 1, Active: true, Balance: big.NewInt(1)}

// ---- reference model: the registration rules of the property statement

type mShare struct {
	owner      int
	ops        []uint64
	sharePKs   [][]byte
	own        bool
	ownSharePK []byte
	liquidated bool
}

type model struct {
	ownID     uint64
	operators map[uint64]string // id -> owner|pubkey
	shares    map[string]*mShare
	fee       map[int][]byte
	nonce     map[int]int // number of add attempts so far per owner
	lastBlock uint64
	ownKeys   map[string]bool // share public keys the key manager must be able to sign for
	hasRecip  map[int]bool
}

func newModel() *model {
	return &model{operators: map[uint64]string{}, shares: map[string]*mShare{}, fee: map[int][]byte{}, nonce: map[int]int{}, ownKeys: map[string]bool{}, hasRecip: map[int]bool{}}
}

func clusterKey(owner int, ops []uint64) string {
	s := append([]uint64(nil), ops...)
	sort.Slice(s, func(i, j int) bool { return s[i] < s[j] })
	return fmt.Sprint(owner, s)
}

func (m *model) dump(owners int) string {
	var b strings.Builder
	fmt.Fprintf(&b, "own=%d last=%d\n", m.ownID, m.lastBlock)
	ids := make([]uint64, 0, len(m.operators))
	for id := range m.operators {
		ids = append(ids, id)
	}
	sort.Slice(ids, func(i, j int) bool { return ids[i] < ids[j] })
	for _, id := range ids {
		fmt.Fprintf(&b, "op %d %s\n", id, m.operators[id])
	}
	pks := make([]string, 0, len(m.shares))
	for pk := range m.shares {
		pks = append(pks, pk)
	}
	sort.Strings(pks)
	for _, pk := range pks {
		s := m.shares[pk]
		own := ""
		if s.own {
			own = hex.EncodeToString(s.ownSharePK)
		}
		var sp []string
		for _, x := range s.sharePKs {
			sp = append(sp, hex.EncodeToString(x[:4]))
		}
		fmt.Fprintf(&b, "share %s owner=%s ops=%v sharepks=%v own=%s liq=%v\n", pk[:16], ownerAddr(s.owner).Hex(), s.ops, sp, own, s.liquidated)
	}
	for o := 0; o < owners; o++ {
		fmt.Fprintf(&b, "owner %s fee=%x next_nonce=%d\n", ownerAddr(o).Hex(), m.fee[o], m.nonce[o])
	}
	ks := make([]string, 0, len(m.ownKeys))
	for k := range m.ownKeys {
		ks = append(ks, k)
	}
	sort.Strings(ks)
	fmt.Fprintf(&b, "keys %v\nstored-unusable []\n", ks)
	return b.String()
}

// ---- the live node (rebuilt from the database at every restart)

type taskRec struct{ log []string }

func (t *taskRec) StartValidator(s *ssvtypes.SSVShare) error {
	t.log = append(t.log, "start "+hex.EncodeToString(s.ValidatorPubKey[:8]))
	return nil
}
func (t *taskRec) StopValidator(pk spectypes.ValidatorPK) error {
	t.log = append(t.log, "stop "+hex.EncodeToString(pk[:8]))
	return nil
}
func (t *taskRec) LiquidateCluster(o ethcommon.Address, ids []uint64, s []*ssvtypes.SSVShare) error {
	t.log = append(t.log, fmt.Sprintf("liquidate %d", len(s)))
	return nil
}
func (t *taskRec) ReactivateCluster(o ethcommon.Address, ids []uint64, s []*ssvtypes.SSVShare) error {
	t.log = append(t.log, fmt.Sprintf("reactivate %d", len(s)))
	return nil
}
func (t *taskRec) UpdateFeeRecipient(o, r ethcommon.Address) error {
	t.log = append(t.log, "fee")
	return nil
}
func (t *taskRec) ExitValidator(pk phase0.BLSPubKey, b uint64, i phase0.ValidatorIndex) error {
	t.log = append(t.log, "exit")
	return nil
}

type node struct {
	ns    nodestorage.Storage
	km    spectypes.KeyManager
	ods   operatordatastore.OperatorDataStore
	eh    *eventhandler.EventHandler
	tasks *taskRec
}

// boot builds every in-memory object from the database, the way cli/operator/node.go does
// (package main there; the few lines of bootstrap are re-implemented here and listed as a stub).
func boot(db basedb.Database) (*node, error) {
	n := &node{tasks: &taskRec{}}
	var err error
	if n.ns, err = nodestorage.NewNodeStorage(logger, db); err != nil {
		return nil, fmt.Errorf("node storage: %w", err)
	}
	if n.km, err = ekm.NewETHKeyManagerSigner(logger, db, networkconfig.TestNetwork, true, ""); err != nil {
		return nil, fmt.Errorf("key manager: %w", err)
	}
	od, found, err := n.ns.GetOperatorDataByPubKey(nil, opPubB64)
	if err != nil {
		return nil, fmt.Errorf("operator data: %w", err)
	}
	if !found {
		od = &registrystorage.OperatorData{PublicKey: opPubB64}
	}
	n.ods = operatordatastore.New(od)
	stores := ibftstorage.NewStoresFromRoles(db, spectypes.BNRoleAttester, spectypes.BNRoleProposer, spectypes.BNRoleAggregator, spectypes.BNRoleSyncCommittee, spectypes.BNRoleSyncCommitteeContribution)
	parser := eventparser.New(mustFilterer())
	n.eh, err = eventhandler.New(n.ns, parser, n.tasks, networkconfig.TestNetwork, n.ods, opKey, n.km, nil, stores, eventhandler.WithFullNode(), eventhandler.WithLogger(logger))
	return n, err
}

func mustFilterer() *contract.ContractFilterer {
	f, err := contract.NewContractFilterer(contractA, nil)
	if err != nil {
		panic(err)
	}
	return f
}

// feed hands one block to the real handler exactly as the event syncer does.
func (n *node) feed(num uint64, logs []ethtypes.Log) (uint64, error) {
	ch := make(chan executionclient.BlockLogs, 1)
	for i := range logs {
		logs[i].BlockNumber = num
		logs[i].TxIndex = uint(i)
		logs[i].Index = uint(i)
	}
	ch <- executionclient.BlockLogs{BlockNumber: num, Logs: logs}
	close(ch)
	return n.eh.HandleBlockEventsStream(ch, true)
}

// dumpNode renders the node's registry state through its getters, in the model's format.
func dumpNode(n *node, owners int) string {
	var b strings.Builder
	last := uint64(0)
	if lb, found, err := n.ns.GetLastProcessedBlock(nil); err == nil && found && lb != nil {
		last = lb.Uint64()
	}
	fmt.Fprintf(&b, "own=%d last=%d\n", n.ods.GetOperatorID(), last)
	ops, _ := n.ns.ListOperators(nil, 0, 0)
	sort.Slice(ops, func(i, j int) bool { return ops[i].ID < ops[j].ID })
	for _, o := range ops {
		fmt.Fprintf(&b, "op %d %s|%x\n", o.ID, o.OwnerAddress.Hex(), crypto.Keccak256(o.PublicKey)[:6])
	}
	shares := n.ns.Shares().List(nil)
	sort.Slice(shares, func(i, j int) bool { return bytes.Compare(shares[i].ValidatorPubKey, shares[j].ValidatorPubKey) < 0 })
	for _, s := range shares {
		var ids []uint64
		var sp []string
		for _, c := range s.Committee {
			ids = append(ids, c.OperatorID)
			sp = append(sp, hex.EncodeToString(c.PubKey[:4]))
		}
		own := ""
		if s.OperatorID != 0 {
			own = hex.EncodeToString(s.SharePubKey)
		}
		fmt.Fprintf(&b, "share %s owner=%s ops=%v sharepks=%v own=%s liq=%v\n", hex.EncodeToString(s.ValidatorPubKey)[:16], s.OwnerAddress.Hex(), ids, sp, own, s.Liquidated)
	}
	for o := 0; o < owners; o++ {
		fee := []byte(nil)
		if rd, found, err := n.ns.GetRecipientData(nil, ownerAddr(o)); err == nil && found && rd != nil {
			if rd.FeeRecipient != ([20]byte{}) {
				fee = rd.FeeRecipient[:]
			}
		}
		nn, _ := n.ns.GetNextNonce(nil, ownerAddr(o))
		fmt.Fprintf(&b, "owner %s fee=%x next_nonce=%d\n", ownerAddr(o).Hex(), fee, nn)
	}
	// stored key shares: usable for signing vs. merely present in the account store
	usable, unusable := map[string]bool{}, map[string]bool{}
	if accs, err := n.km.(ekm.StorageProvider).ListAccounts(); err == nil {
		for _, a := range accs {
			pk := a.ValidatorPublicKey()
			if _, err := n.km.SignRoot(&specqbft.Message{Identifier: []byte{1}}, spectypes.QBFTSignatureType, pk); err == nil {
				usable[hex.EncodeToString(pk)] = true
			} else {
				unusable[hex.EncodeToString(pk)] = true
			}
		}
	}
	for n, set := range []map[string]bool{usable, unusable} {
		keys := make([]string, 0, len(set))
		for k := range set {
			keys = append(keys, k)
		}
		sort.Strings(keys)
		fmt.Fprintf(&b, "%s %v\n", []string{"keys", "stored-unusable"}[n], keys)
	}
	return b.String()
}

// skipVolatile: database keys outside the property's state (slashing-protection records are C04's
// subject; wallet/account blobs contain crypto/rand UUIDs and are compared through ListAccounts).
func skipVolatile(k []byte) bool {
	return bytes.Contains(k, []byte("highest_att")) || bytes.Contains(k, []byte("highest_prop")) || bytes.Contains(k, []byte("wallet")) || bytes.Contains(k, []byte("accounts"))
}

var _ = sim.NewMemDB
