package regsim

import (
	"bytes"
	"encoding/hex"
	"errors"
	"fmt"
	"testing"
	"testing/synctest"
	"time"

	ethcommon "github.com/ethereum/go-ethereum/common"
	ethtypes "github.com/ethereum/go-ethereum/core/types"
	"github.com/ethereum/go-ethereum/crypto"

	"github.com/bloxapp/ssv/eth/eventhandler"
	"github.com/bloxapp/ssv/networkconfig"
	nodestorage "github.com/bloxapp/ssv/operator/storage"
	"github.com/bloxapp/ssv/storage/basedb"
	"github.com/bloxapp/ssv/storage/kv"

	"verifharness/sim"
)

const nOwners = 3

// malformations of a ValidatorAdded event (exactly one at a time)
const (
	mfNone = iota
	mfBadSig
	mfReplayedNonce
	mfFutureNonce
	mfWrongOwnerSig
	mfDupOperator
	mfUnknownOperator
	mfBadCommitteeSize
	mfSharesTooShort
	mfSharesTooLong
	mfUndecryptable
	mfKeyMismatch
	mfBadValidatorPK
	nMalform
)

var mfNames = []string{"valid", "bad-signature", "replayed-nonce", "future-nonce", "signature-for-other-owner", "duplicate-operator", "unknown-operator", "invalid-committee-size", "shares-too-short", "shares-too-long", "undecryptable-own-key", "own-key-mismatch", "bad-validator-pubkey"}

type block struct {
	num  uint64
	logs []ethtypes.Log
	desc []string
}

// run state shared by C11 and C12: the event log under construction and the reference model
type script struct {
	d       *sim.D
	m       *model
	pending block
	blocks  []block // closed blocks, in order
	nextNum uint64
	nextOp  uint64
}

func newScript(d *sim.D) *script {
	return &script{d: d, m: newModel(), nextNum: 1 + uint64(d.Cfg.Get("first_block", 0)), nextOp: 1}
}

func (s *script) genStep(r *sim.Rand) *sim.Step {
	cfg := s.d.Cfg
	// warm start: register four operators (the node's own among them) first, so that the run is
	// spent on validators of the node's own clusters
	if cfg.Get("warm", 0) == 1 && len(s.d.Steps) < 5 {
		if n := len(s.d.Steps); n < 4 {
			own := int64(0)
			if n == 1 {
				own = 1
			}
			return &sim.Step{Op: "opadd", A: []int64{int64(s.nextOp), int64(r.Intn(nOwners)), own}}
		}
		return &sim.Step{Op: "block", A: []int64{1}}
	}
	if len(s.d.Steps) >= int(cfg.Get("steps", 20))+5*int(cfg.Get("warm", 0)) {
		if len(s.pending.logs) > 0 {
			return &sim.Step{Op: "block", A: []int64{int64(1 + r.Intn(3))}}
		}
		return nil
	}
	nOps := len(s.m.operators)
	wOp := 2
	if nOps < 5 {
		wOp = 12
	}
	switch r.Weighted(wOp, 1, 14, 3, 1, 2, 2, 2, int(cfg.Get("w_block", 6)), int(cfg.Get("w_restart", 1)), 1) {
	case 0:
		own := int64(0)
		if s.m.ownID == 0 && (r.Chance(0.4) || nOps >= 3) && cfg.Get("in_committee", 1) == 1 {
			own = 1
		}
		if s.m.ownID != 0 && r.Chance(0.05) {
			own = 1 // the operator's public key registered a second time under a new id
		}
		return &sim.Step{Op: "opadd", A: []int64{int64(s.nextOp), int64(r.Intn(nOwners)), own}}
	case 1:
		return &sim.Step{Op: "opremove", A: []int64{int64(1 + r.Intn(int(s.nextOp)+1))}}
	case 2:
		mf := int64(0)
		if r.Chance(float64(cfg.Get("p_malformed", 35)) / 100) {
			mf = int64(1 + r.Intn(nMalform-1))
		}
		return &sim.Step{Op: "vadd", A: []int64{int64(r.Intn(nOwners)), int64(r.Intn(int(cfg.Get("validators", 6)))), int64(r.U64() >> 1), mf}}
	case 3:
		return &sim.Step{Op: "vremove", A: []int64{int64(r.Intn(nOwners)), int64(r.Intn(int(cfg.Get("validators", 6))))}}
	case 4:
		return &sim.Step{Op: "vexit", A: []int64{int64(r.Intn(nOwners)), int64(r.Intn(int(cfg.Get("validators", 6))))}}
	case 5:
		return &sim.Step{Op: "liquidate", A: []int64{int64(r.Intn(nOwners)), int64(r.Intn(int(cfg.Get("validators", 6))))}}
	case 6:
		return &sim.Step{Op: "reactivate", A: []int64{int64(r.Intn(nOwners)), int64(r.Intn(int(cfg.Get("validators", 6))))}}
	case 7:
		return &sim.Step{Op: "fee", A: []int64{int64(r.Intn(nOwners)), int64(r.Intn(4))}}
	case 8:
		return &sim.Step{Op: "block", A: []int64{int64(1 + r.Intn(3))}}
	case 9:
		return &sim.Step{Op: "restart"}
	default:
		return &sim.Step{Op: "inferior", A: []int64{int64(r.Intn(3)), int64(r.Intn(2))}}
	}
}

func (s *script) add(l ethtypes.Log, desc string) {
	s.pending.logs = append(s.pending.logs, l)
	s.pending.desc = append(s.pending.desc, desc)
	s.d.Logf("event %s", desc)
}

// committeeFor picks a committee for a ValidatorAdded from the sub-seed and the model's operators.
func (s *script) committeeFor(r *sim.Rand, mf int64) []uint64 {
	var ids []uint64
	for id := range s.m.operators {
		ids = append(ids, id)
	}
	sortU64(ids)
	size := []int{4, 4, 4, 7}[r.Intn(4)]
	if mf == mfBadCommitteeSize {
		size = []int{1, 2, 3, 5, 6, 8}[r.Intn(6)]
	}
	var c []uint64
	// prefer committees containing the own operator half of the time
	p := r.Perm(len(ids))
	if s.m.ownID != 0 && r.Chance(0.6) {
		c = append(c, s.m.ownID)
	}
	for _, i := range p {
		if len(c) >= size {
			break
		}
		if ids[i] != s.m.ownID || len(c) == 0 || c[0] != s.m.ownID {
			c = append(c, ids[i])
		}
	}
	for len(c) < size { // not enough registered operators: the add is then malformed anyway
		c = append(c, 1000+uint64(len(c)))
	}
	sortU64(c)
	switch mf {
	case mfDupOperator:
		c[len(c)-1] = c[0]
	case mfUnknownOperator:
		c[len(c)-1] = 5000 + uint64(r.Intn(10))
	}
	// the rules ask for an existing distinct committee of valid size, not for ascending ids: one event in
	// four lists its operators (and, position by position, their share keys) in another order
	if r.Intn(4) == 0 {
		for i, j := range r.Perm(len(c)) {
			c[i], c[j] = c[j], c[i]
		}
		s.d.Probe("committee-not-ascending")
	}
	return c
}

func sortU64(a []uint64) {
	for i := 1; i < len(a); i++ {
		for j := i; j > 0 && a[j] < a[j-1]; j-- {
			a[j], a[j-1] = a[j-1], a[j]
		}
	}
}

// exec turns a step into contract logs (appended to the pending block) and applies the
// registration rules of the statement to the reference model.
func (s *script) exec(st sim.Step) {
	m := s.m
	switch st.Op {
	case "opadd":
		id := uint64(st.Arg(0))
		if id < s.nextOp || id == 0 { // the contract hands out unique, increasing ids
			return
		}
		s.nextOp = id + 1
		owner := int(st.Arg(1)) % nOwners
		pub := []byte(fmt.Sprintf("operator-public-key-%d", id))
		if st.Arg(2) == 1 {
			pub = opPubB64
		}
		packed, err := abiOpKey.Methods["method"].Outputs.Pack(pub)
		if err != nil {
			panic(err)
		}
		s.add(mkLog("OperatorAdded", []ethcommon.Hash{topicU64(id), topicAddr(ownerAddr(owner))}, packed, bigOne), fmt.Sprintf("OperatorAdded id=%d owner=%d own=%v", id, owner, st.Arg(2) == 1))
		// rule: an operator id is recorded once; the node learns its own id from its public key;
		// the same key under a second id is rejected
		if st.Arg(2) == 1 && m.ownID != 0 {
			return
		}
		m.operators[id] = fmt.Sprintf("%s|%x", ownerAddr(owner).Hex(), crypto.Keccak256(pub)[:6])
		if st.Arg(2) == 1 {
			m.ownID = id
		}
	case "opremove":
		s.add(mkLog("OperatorRemoved", []ethcommon.Hash{topicU64(uint64(st.Arg(0)))}), fmt.Sprintf("OperatorRemoved id=%d", st.Arg(0)))
	case "vadd":
		s.execVAdd(st)
	case "vremove", "vexit":
		owner, vi := int(st.Arg(0))%nOwners, int(st.Arg(1))
		v := validator(vi)
		pkHex := hex.EncodeToString(v.pk)
		sh := m.shares[pkHex]
		ops := []uint64{1, 2, 3, 4}
		if sh != nil {
			ops = append([]uint64(nil), sh.ops...)
		}
		if st.Op == "vexit" {
			s.add(mkLog("ValidatorExited", []ethcommon.Hash{topicAddr(ownerAddr(owner))}, ops, v.pk), fmt.Sprintf("ValidatorExited owner=%d val=%d", owner, vi))
			return
		}
		s.add(mkLog("ValidatorRemoved", []ethcommon.Hash{topicAddr(ownerAddr(owner))}, ops, v.pk, cluster), fmt.Sprintf("ValidatorRemoved owner=%d val=%d", owner, vi))
		if sh != nil && sh.owner == owner { // only the owner can remove it
			delete(m.shares, pkHex)
			if sh.own {
				delete(m.ownKeys, hex.EncodeToString(sh.ownSharePK))
			}
		}
	case "liquidate", "reactivate":
		owner, vi := int(st.Arg(0))%nOwners, int(st.Arg(1))
		ops := []uint64{1, 2, 3, 4}
		if sh := m.shares[hex.EncodeToString(validator(vi).pk)]; sh != nil {
			ops = append([]uint64(nil), sh.ops...)
		}
		name := "ClusterLiquidated"
		if st.Op == "reactivate" {
			name = "ClusterReactivated"
		}
		s.add(mkLog(name, []ethcommon.Hash{topicAddr(ownerAddr(owner))}, ops, cluster), fmt.Sprintf("%s owner=%d ops=%v", name, owner, ops))
		for _, sh := range m.shares { // liquidation flags of the operator's own validators
			if sh.own && clusterKey(sh.owner, sh.ops) == clusterKey(owner, ops) {
				sh.liquidated = st.Op == "liquidate"
			}
		}
	case "fee":
		owner := int(st.Arg(0)) % nOwners
		addr := ethcommon.BytesToAddress(crypto.Keccak256([]byte(fmt.Sprint("fee", st.Arg(1))))[:20])
		s.add(mkLog("FeeRecipientAddressUpdated", []ethcommon.Hash{topicAddr(ownerAddr(owner))}, addr), fmt.Sprintf("FeeRecipientAddressUpdated owner=%d fee=%d", owner, st.Arg(1)))
		m.fee[owner], m.hasRecip[owner] = addr.Bytes(), true
	}
}

func (s *script) execVAdd(st sim.Step) {
	m := s.m
	owner, vi, mf := int(st.Arg(0))%nOwners, int(st.Arg(1)), st.Arg(3)%nMalform
	r := sim.NewRand(uint64(st.Arg(2)))
	v := validator(vi)
	ops := s.committeeFor(r, mf)
	// owner signature over owner:nonce
	nonce := m.nonce[owner]
	signOwner := ownerAddr(owner)
	switch mf {
	case mfReplayedNonce:
		nonce--
	case mfFutureNonce:
		nonce += 1 + r.Intn(3)
	case mfWrongOwnerSig:
		signOwner = ownerAddr((owner + 1) % nOwners)
	}
	sig := v.sk.SignByte(crypto.Keccak256([]byte(fmt.Sprintf("%s:%d", signOwner.String(), nonce)))).Serialize()
	if mf == mfBadSig {
		sig = validator(vi + 1000).sk.SignByte(crypto.Keccak256([]byte(fmt.Sprintf("%s:%d", signOwner.String(), nonce)))).Serialize()
	}
	shares := append([]byte(nil), sig...)
	var sharePKs [][]byte
	for j := range ops {
		pk := v.shares[j].GetPublicKey().Serialize()
		sharePKs = append(sharePKs, pk)
		shares = append(shares, pk...)
	}
	ownIdx := -1
	for j, id := range ops {
		enc := crypto.Keccak256([]byte(fmt.Sprint("enc", vi, j)))
		blob := bytes.Repeat(enc, 8) // 256 opaque bytes for other operators
		if id == m.ownID && m.ownID != 0 && ownIdx < 0 {
			ownIdx = j
			secret := []byte(v.shares[j].SerializeToHexStr())
			if mf == mfKeyMismatch {
				secret = []byte(v.shares[(j+1)%13].SerializeToHexStr())
			}
			if mf != mfUndecryptable {
				var err error
				if blob, err = opKey.Public().Encrypt(secret); err != nil {
					panic(err)
				}
			}
		}
		shares = append(shares, blob...)
	}
	switch mf {
	case mfSharesTooShort:
		shares = shares[:len(shares)-1-r.Intn(40)]
	case mfSharesTooLong:
		shares = append(shares, make([]byte, 1+r.Intn(40))...)
	}
	pk := v.pk
	if mf == mfBadValidatorPK {
		pk = bytes.Repeat([]byte{0xff}, 48)
	}
	s.add(mkLog("ValidatorAdded", []ethcommon.Hash{topicAddr(ownerAddr(owner))}, ops, pk, shares, cluster),
		fmt.Sprintf("ValidatorAdded owner=%d val=%d ops=%v %s nonce=%d", owner, vi, ops, mfNames[mf], nonce))
	s.d.Fault("validator-added-" + mfNames[mf])

	// ---- registration rules (from the statement)
	m.nonce[owner]++ // every add attempt counts exactly once
	if !m.hasRecip[owner] {
		m.hasRecip[owner] = true
		m.fee[owner] = ownerAddr(owner).Bytes()
	}
	valid := mf == mfNone || ((mf == mfUndecryptable || mf == mfKeyMismatch) && ownIdx < 0)
	seen := map[uint64]bool{}
	for _, id := range ops {
		if seen[id] || m.operators[id] == "" {
			valid = false
		}
		seen[id] = true
	}
	if len(ops) != 4 && len(ops) != 7 && len(ops) != 10 && len(ops) != 13 {
		valid = false
	}
	pkHex := hex.EncodeToString(v.pk)
	if !valid || m.shares[pkHex] != nil {
		if valid {
			s.d.Probe("re-add-of-registered-validator")
		}
		return
	}
	sh := &mShare{owner: owner, ops: ops, sharePKs: sharePKs}
	if ownIdx >= 0 {
		sh.own, sh.ownSharePK = true, sharePKs[ownIdx]
		m.ownKeys[hex.EncodeToString(sh.ownSharePK)] = true
		s.d.Probe("own-share-added")
	}
	m.shares[pkHex] = sh
}

func (s *script) closeBlock(gap int64) *block {
	if len(s.pending.logs) == 0 {
		return nil
	}
	if gap < 1 {
		gap = 1
	}
	s.nextNum += uint64(gap) - 1
	b := s.pending
	b.num = s.nextNum
	s.nextNum++
	s.pending = block{}
	s.blocks = append(s.blocks, b)
	s.m.lastBlock = b.num
	return &b
}

// ---- shared helpers

func openDB(d *sim.D) (basedb.Database, func()) {
	if d.Cfg.Get("badger", 0) == 1 {
		db, err := kv.NewInMemory(logger, basedb.Options{})
		if err != nil {
			panic(err)
		}
		return db, func() { _ = db.Close() }
	}
	return sim.NewMemDB(), func() {}
}

func enterBubble(t *testing.T, f func()) {
	synctest.Test(t, func(t *testing.T) {
		// the key manager reads the clock (slashing-protection floor): jump to a fixed instant after
		// the beacon genesis of the test network
		gen := time.Unix(int64(networkconfig.TestNetwork.Beacon.MinGenesisTime()), 0)
		time.Sleep(time.Until(gen.Add(1000 * 32 * 12 * time.Second)))
		f()
	})
}

func genConfig(prop string) func(r *sim.Rand, tier string) sim.Config {
	return func(r *sim.Rand, tier string) sim.Config {
		c := sim.Config{"steps": int64(8 + r.Intn(22)), "validators": int64(2 + r.Intn(6)), "in_committee": int64(r.Weighted(1, 4)),
			"p_malformed": int64(10 + r.Intn(50)), "w_block": int64(2 + r.Intn(10)), "w_restart": int64(r.Intn(3)), "first_block": int64(1000 + r.Intn(1000)),
			"badger": int64(r.Weighted(6, 1))}
		if tier == "thorough" {
			c["steps"] = int64(8 + r.Intn(72))
		}
		if prop == "C12" {
			c["steps"] = int64(4 + r.Intn(12))
			c["w_restart"] = 0
			c["in_committee"], c["warm"] = 1, int64(r.Weighted(1, 3))
			c["p_malformed"] = int64(r.Intn(30))
			c["points"] = int64(12 + r.Intn(20))
			if tier == "thorough" {
				c["steps"] = int64(4 + r.Intn(30))
				c["points"] = int64(20 + r.Intn(40))
			}
		}
		return c
	}
}

type ethLog = ethtypes.Log

func cloneLogs(in []ethtypes.Log) []ethtypes.Log {
	out := make([]ethtypes.Log, len(in))
	for i, l := range in {
		out[i] = l
		out[i].Topics = append([]ethcommon.Hash(nil), l.Topics...)
		out[i].Data = append([]byte(nil), l.Data...)
	}
	return out
}

var errInferior = eventhandler.ErrInferiorBlock

func isInferior(err error) bool { return err != nil && errors.Is(err, errInferior) }

var _ = nodestorage.NewNodeStorage
