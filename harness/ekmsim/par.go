package ekmsim

// Concurrent signing requests for one share (the "schedules" part of C04's quantifier).
//
// Regime C, outside a synctest bubble: two real goroutines issue SignBeaconObject; each parks at
// every storage call of the key manager (FaultDB.Yield); this goroutine - the scheduler - decides from
// the step's sub-seed who proceeds and recognises a goroutine that waits for a lock from its runtime
// wait reason. The clock is a fixed value handed to the key manager through its BeaconNetwork
// dependency (no real time is read by the code under test except the dependency's far-future guard,
// which only needs the simulated instant to lie in the past).
//
// Why not in the bubble: on the unchanged tree two overlapping requests of the SAME kind for one
// share deadlock inside github.com/bloxapp/eth2-key-manager (SimpleSigner.lock waits for the account
// lock while it holds the map lock that unlock needs). Nothing is signed, so the statement holds, but
// goroutines stuck on a mutex can be neither finished nor abandoned inside a bubble. Here they are
// abandoned (leaked) and the key manager is re-opened, as after a node restart.

import (
	"fmt"
	"runtime"
	"sort"
	"strings"
	"sync"
	"testing"
	"time"

	"github.com/attestantio/go-eth2-client/spec/phase0"

	"github.com/bloxapp/ssv/protocol/v2/blockchain/beacon"

	"verifharness/sim"
)

// clockNet: the beacon network of the key manager with a clock the simulator owns.
type clockNet struct {
	beacon.Network
	now *time.Time
}

func (c clockNet) EstimatedCurrentSlot() phase0.Slot {
	return c.Network.EstimatedSlotAtTime(c.now.Unix())
}
func (c clockNet) EstimatedCurrentEpoch() phase0.Epoch {
	return c.Network.EstimatedEpochAtSlot(c.EstimatedCurrentSlot())
}

type parRel struct {
	actor int
	att   bool
	i     int
	root  []byte
	src   phase0.Epoch
	tgt   phase0.Epoch
	slot  phase0.Slot
	how   string
}

func goidOf() string {
	b := make([]byte, 64)
	b = b[:runtime.Stack(b, false)]
	f := strings.Fields(string(b))
	if len(f) > 1 {
		return f[1]
	}
	return "?"
}

var stackBuf []byte

// waitReasons returns goroutine id -> wait reason ("running", "sync.Mutex.Lock", "chan receive", ...).
func waitReasons() map[string]string {
	// the dump must be complete: abandoned (deadlocked) request goroutines of earlier steps accumulate
	if stackBuf == nil {
		stackBuf = make([]byte, 1<<18)
	}
	n := runtime.Stack(stackBuf, true)
	for n >= len(stackBuf) {
		stackBuf = make([]byte, 2*len(stackBuf))
		n = runtime.Stack(stackBuf, true)
	}
	buf := stackBuf[:n]
	out := map[string]string{}
	for _, blk := range strings.Split(string(buf), "\n\n") {
		if !strings.HasPrefix(blk, "goroutine ") {
			continue
		}
		f := strings.Fields(blk)
		if len(f) < 3 {
			continue
		}
		i, j := strings.Index(blk, "["), strings.Index(blk, "]")
		if i < 0 || j < i {
			continue
		}
		reason := blk[i+1 : j]
		if k := strings.Index(reason, ","); k >= 0 {
			reason = reason[:k]
		}
		out[f[1]] = reason
	}
	return out
}

func isLockWait(reason string) bool {
	return strings.HasPrefix(reason, "sync.Mutex") || strings.HasPrefix(reason, "sync.RWMutex") || reason == "semacquire" || strings.HasPrefix(reason, "sync.Cond")
}

// parStep runs two requests concurrently; returns a log line. Executed by the scheduler goroutine only.
func (w *world) parStep(s sim.Step) string {
	i := int(s.Arg(0)) % nShares
	j := (i + 1) % nShares
	va, vb := s.Arg(2)%3, (s.Arg(2)%3+1+s.Arg(3)%2)%3
	var reqs []sim.Step
	switch s.Arg(1) % 4 {
	case 0: // two different attestations for the same target epoch
		reqs = []sim.Step{{Op: "att", A: []int64{int64(i), 0, 0, va}}, {Op: "att", A: []int64{int64(i), 0, 0, vb}}}
	case 1: // two different blocks for the same slot
		reqs = []sim.Step{{Op: "blk", A: []int64{int64(i), 0, va}}, {Op: "blk", A: []int64{int64(i), 0, vb}}}
	case 2: // attestation and block of one share
		reqs = []sim.Step{{Op: "att", A: []int64{int64(i), 0, 0, va}}, {Op: "blk", A: []int64{int64(i), 0, vb}}}
	default: // the same duty kind on two shares
		reqs = []sim.Step{{Op: "att", A: []int64{int64(i), 0, 0, va}}, {Op: "att", A: []int64{int64(j), 0, 0, vb}}}
	}
	r := sim.NewRand(uint64(s.Arg(4)))
	const (
		stNew = iota
		stParked
		stRunning
		stBlocked
		stDone
	)
	type actor struct {
		gate  chan struct{}
		state int
		res   string
		gid   string
	}
	acts := []*actor{{gate: make(chan struct{}, 1)}, {gate: make(chan struct{}, 1)}}
	var mu sync.Mutex
	byGid := map[string]*actor{}
	w.parMode = true
	w.fdb.Yield = func(op string) {
		mu.Lock()
		a := byGid[goidOf()]
		if a == nil {
			mu.Unlock()
			return
		}
		a.state = stParked
		mu.Unlock()
		<-a.gate
	}
	started := make(chan struct{}, 2)
	for k := range acts {
		go func(k int) {
			a := acts[k]
			mu.Lock()
			a.gid = goidOf()
			byGid[a.gid] = a
			mu.Unlock()
			started <- struct{}{}
			<-a.gate
			res := w.op(reqs[k], fmt.Sprintf("concurrent-%d", k))
			mu.Lock()
			a.res, a.state = res, stDone
			mu.Unlock()
		}(k)
	}
	<-started
	<-started
	// settle: until every actor is parked, done, or has been seen waiting for a lock in 3 consecutive looks
	settle := func() bool {
		stable := 0
		for spin := 0; spin < 200000; spin++ {
			busy := false
			reasons := waitReasons()
			mu.Lock()
			for _, a := range acts {
				if a.state == stRunning || a.state == stBlocked {
					if isLockWait(reasons[a.gid]) {
						a.state = stBlocked
					} else {
						a.state = stRunning
						busy = true
					}
				}
			}
			mu.Unlock()
			if busy {
				stable = 0
				runtime.Gosched()
				continue
			}
			stable++
			if stable >= 3 {
				return true
			}
			time.Sleep(200 * time.Microsecond)
		}
		return false
	}
	deadlock := false
	for it := 0; it < 400; it++ {
		var cand []int
		blocked, done := 0, 0
		mu.Lock()
		for k, a := range acts {
			switch a.state {
			case stNew, stParked:
				cand = append(cand, k)
			case stBlocked:
				blocked++
			case stDone:
				done++
			}
		}
		mu.Unlock()
		if done == len(acts) {
			break
		}
		if len(cand) == 0 {
			deadlock = blocked > 0
			break
		}
		k := cand[r.Intn(len(cand))]
		mu.Lock()
		acts[k].state = stRunning
		mu.Unlock()
		acts[k].gate <- struct{}{}
		if !settle() {
			w.d.Discard = "scheduler could not settle"
			break
		}
	}
	w.fdb.Yield = nil
	w.parMode = false
	w.d.Fault("concurrent-signing")
	if deadlock {
		// both requests wait for each other inside the dependency: nothing is released; the goroutines are
		// abandoned and the node is restarted
		w.d.Probe("diag-deadlock-in-signer")
		w.parRel = nil
		if err := w.boot(); err != nil {
			w.d.Violate("restart-fails", "after-deadlock", "key manager cannot be reopened: %v", err)
		}
		return fmt.Sprintf("par kind=%d share %d: DEADLOCK in the signer (nothing released), node restarted", s.Arg(1)%4, i)
	}
	// releases are judged in a canonical order, by the scheduler goroutine
	rel := w.parRel
	w.parRel = nil
	sort.SliceStable(rel, func(a, b int) bool { return rel[a].actor < rel[b].actor })
	for _, x := range rel {
		if x.att {
			w.releasedAtt(x.i, x.root, x.src, x.tgt, "concurrent")
		} else {
			w.releasedBlk(x.i, x.root, x.slot, "concurrent")
		}
	}
	return fmt.Sprintf("par kind=%d share %d [%s | %s]", s.Arg(1)%4, i, acts[0].res, acts[1].res)
}

// runPar: a run made of registrations, clock advances, sequential signatures, restarts and concurrent pairs.
func runPar(t *testing.T, d *sim.D) {
	clock := time.Unix(int64(net.Beacon.MinGenesisTime()), 0).Add(time.Duration(1000+d.Cfg.Get("epoch0", 0)) * 32 * 12 * time.Second)
	old := net
	cn := net
	cn.Beacon = clockNet{Network: beacon.NewNetwork(net.Beacon.GetBeaconNetwork()), now: &clock}
	net = cn
	defer func() { net = old }()
	w := &world{d: d, atts: map[int][]attRec{}, blks: map[int][]blkRec{}, added: map[int]bool{}, broken: map[int]string{}}
	w.inner = sim.NewMemDB()
	if err := w.boot(); err != nil {
		d.Discard = "boot: " + err.Error()
		return
	}
	pars := 0
	gen := func(r *sim.Rand) *sim.Step {
		n := len(d.Steps)
		switch {
		case n < nShares:
			return &sim.Step{Op: "add", A: []int64{int64(n)}}
		case n == nShares:
			return &sim.Step{Op: "advance", A: []int64{int64(32 + r.Intn(64))}}
		case n >= int(d.Cfg.Get("steps", 12)):
			return nil
		}
		i := int64(r.Intn(nShares))
		switch r.Weighted(3, 2, 2, 2, 8) {
		case 0:
			return &sim.Step{Op: "advance", A: []int64{int64(1 + r.Intn(70))}}
		case 1:
			return &sim.Step{Op: "att", A: []int64{i, int64(r.Intn(3)), int64(r.Intn(2)), int64(r.Intn(3))}}
		case 2:
			return &sim.Step{Op: "blk", A: []int64{i, int64(r.Intn(2)), int64(r.Intn(3))}}
		case 3:
			return &sim.Step{Op: "restart"}
		default:
			return &sim.Step{Op: "par", A: []int64{i, int64(r.Weighted(3, 3, 1, 1)), int64(r.Intn(3)), int64(r.Intn(2)), int64(r.U64() >> 1)}}
		}
	}
	for {
		s, ok := d.Next(gen)
		if !ok {
			break
		}
		switch s.Op {
		case "advance":
			clock = clock.Add(time.Duration(s.Arg(0)%200) * 12 * time.Second)
			d.Logf("advance %d slots -> epoch %d slot %d", s.Arg(0)%200, epochNow(), slotNow())
		case "restart":
			d.Fault("restart")
			if err := w.boot(); err != nil {
				d.Violate("restart-fails", "boot", "key manager cannot be reopened on its database: %v", err)
			}
			d.Logf("restart")
		case "par":
			pars++
			d.Logf("%s", w.parStep(s))
		default:
			d.Logf("%s", w.op(s, "sequential"))
		}
		d.State("km-par", s.Op, w.abs())
		if d.V != nil || d.Discard != "" {
			break
		}
	}
	d.SimTime = time.Duration(len(d.Steps)) * 12 * time.Second
	d.Nontriv = pars > 0
}
