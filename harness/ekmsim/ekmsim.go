// Package ekmsim: C04 — an operator never signs a slashable attestation or block, across restarts.
// Real: ekm.NewETHKeyManagerSigner (wallet, SimpleSigner, NormalProtection, signer storage) of
// /repo + github.com/bloxapp/eth2-key-manager. Stub: clock (synctest bubble), disk engine behind
// the fault-injecting wrapper (sim.MemDB, real in-memory Badger in 1 of 6 runs).
package ekmsim

import (
	"bytes"
	"encoding/hex"
	"fmt"
	"runtime"
	"sort"
	"strings"
	"sync"
	"testing"
	"testing/synctest"
	"time"

	apiv1capella "github.com/attestantio/go-eth2-client/api/v1/capella"
	"github.com/attestantio/go-eth2-client/spec/capella"
	"github.com/attestantio/go-eth2-client/spec/phase0"
	spectypes "github.com/bloxapp/ssv-spec/types"
	"github.com/bloxapp/ssv-spec/types/testingutils"
	"github.com/ethereum/go-ethereum/crypto"
	ssz "github.com/ferranbt/fastssz"
	"github.com/herumi/bls-eth-go-binary/bls"
	"go.uber.org/zap"

	"github.com/bloxapp/ssv/ekm"
	"github.com/bloxapp/ssv/networkconfig"
	"github.com/bloxapp/ssv/storage/basedb"
	"github.com/bloxapp/ssv/storage/kv"

	"verifharness/sim"
)

var logger = zap.NewNop()
var net = networkconfig.TestNetwork

const nShares = 3

func shareKey(i int) *bls.SecretKey {
	h := crypto.Keccak256([]byte(fmt.Sprintf("verif-ekm-share-%d", i)))
	h[0] &= 0x3f
	sk := &bls.SecretKey{}
	if err := sk.Deserialize(h); err != nil {
		panic(err)
	}
	return sk
}

type attRec struct {
	root     string
	src, tgt phase0.Epoch
}
type blkRec struct {
	root string
	slot phase0.Slot
}

type world struct {
	d      *sim.D
	inner  basedb.Database
	fdb    *sim.FaultDB
	km     spectypes.KeyManager
	atts   map[int][]attRec // released attestation signatures per share, whole life of the key share
	blks   map[int][]blkRec
	mu     sync.Mutex
	added  map[int]bool
	broken map[int]string // share -> which protection record the simulator removed / corrupted
	// concurrent scenario (par.go): releases are recorded by the request goroutines and judged by the scheduler
	parMode bool
	parRel  []parRel
}

func (w *world) boot() error {
	w.fdb = sim.NewFaultDB(w.inner)
	km, err := ekm.NewETHKeyManagerSigner(logger, w.fdb, net, w.d.Cfg.Get("builder", 0) == 1, "")
	if err != nil {
		return err
	}
	w.km = km
	return nil
}

func epochNow() phase0.Epoch { return net.Beacon.EstimatedCurrentEpoch() }
func slotNow() phase0.Slot   { return net.Beacon.EstimatedCurrentSlot() }

// released: a signature over (root) left the signer — judge it against the share's whole history.
func (w *world) releasedAtt(i int, root []byte, src, tgt phase0.Epoch, how string) {
	w.mu.Lock()
	defer w.mu.Unlock()
	if w.parMode {
		w.parRel = append(w.parRel, parRel{actor: int(how[len(how)-1] - '0'), att: true, i: i, root: append([]byte(nil), root...), src: src, tgt: tgt})
		return
	}
	r := hex.EncodeToString(root)
	for _, a := range w.atts[i] {
		if a.root == r {
			continue // the very same attestation again is not slashable
		}
		switch {
		case a.tgt == tgt:
			w.d.Violate("double-vote", how, "share %d: attestations %s.. (source %d, target %d) and %s.. (source %d, target %d) have the same target epoch", i, a.root[:8], a.src, a.tgt, r[:8], src, tgt)
		case a.src < src && tgt < a.tgt:
			w.d.Violate("surround-vote", how, "share %d: attestation (%d,%d) is surrounded by earlier (%d,%d)", i, src, tgt, a.src, a.tgt)
		case src < a.src && a.tgt < tgt:
			w.d.Violate("surround-vote", how, "share %d: attestation (%d,%d) surrounds earlier (%d,%d)", i, src, tgt, a.src, a.tgt)
		}
	}
	w.atts[i] = append(w.atts[i], attRec{r, src, tgt})
}

func (w *world) releasedBlk(i int, root []byte, slot phase0.Slot, how string) {
	w.mu.Lock()
	defer w.mu.Unlock()
	if w.parMode {
		w.parRel = append(w.parRel, parRel{actor: int(how[len(how)-1] - '0'), i: i, root: append([]byte(nil), root...), slot: slot})
		return
	}
	r := hex.EncodeToString(root)
	for _, b := range w.blks[i] {
		if b.slot == slot && b.root != r {
			w.d.Violate("double-proposal", how, "share %d: two different blocks signed for slot %d (%s.. and %s..)", i, slot, b.root[:8], r[:8])
		}
	}
	w.blks[i] = append(w.blks[i], blkRec{r, slot})
}

func (w *world) signAtt(i int, srcBack, tgtBack, variant int64, how string) string {
	now := epochNow()
	tgt := now - phase0.Epoch(tgtBack%4) // targets are never beyond the clock (as duties are)
	if phase0.Epoch(tgtBack%4) > now {
		tgt = now
	}
	src := tgt - 1 - phase0.Epoch(srcBack%3)
	if tgt == 0 || phase0.Epoch(1+srcBack%3) > tgt {
		return "skip"
	}
	data := &phase0.AttestationData{Slot: phase0.Slot(tgt) * 32, Index: 1, Source: &phase0.Checkpoint{Epoch: src}, Target: &phase0.Checkpoint{Epoch: tgt}}
	data.BeaconBlockRoot[0] = byte(variant)
	pk := shareKey(i).GetPublicKey().Serialize()
	missing := !w.parMode && w.stillBroken(i, "att")
	sig, root, err := w.km.SignBeaconObject(data, phase0.Domain{}, pk, spectypes.DomainAttester)
	if err != nil || len(sig) == 0 {
		return fmt.Sprintf("att(%d,%d) refused", src, tgt)
	}
	if !w.parMode {
		w.d.Probe("attestation-signed")
	}
	if missing {
		w.d.Violate("signed-without-protection-record", how, "share %d: attestation (%d,%d) was signed although its highest-attestation record is missing or unreadable", i, src, tgt)
	}
	w.releasedAtt(i, root[:], src, tgt, how)
	return fmt.Sprintf("att(%d,%d) SIGNED", src, tgt)
}

func (w *world) signBlk(i int, slotBack, variant int64, how string) string {
	now := slotNow()
	slot := now - phase0.Slot(slotBack%3)
	if phase0.Slot(slotBack%3) >= now {
		return "skip"
	}
	var obj ssz.HashRoot
	if w.d.Cfg.Get("builder", 0) == 1 && variant%2 == 1 {
		b := &apiv1capella.BlindedBeaconBlock{}
		raw, _ := testingutils.TestingBlindedBeaconBlockCapella.MarshalSSZ()
		if err := b.UnmarshalSSZ(raw); err != nil {
			panic(err)
		}
		b.Slot = slot
		b.StateRoot[0] = byte(variant)
		obj = b
	} else {
		b := &capella.BeaconBlock{}
		raw, _ := testingutils.TestingBeaconBlockCapella.MarshalSSZ()
		if err := b.UnmarshalSSZ(raw); err != nil {
			panic(err)
		}
		b.Slot = slot
		b.StateRoot[0] = byte(variant)
		obj = b
	}
	pk := shareKey(i).GetPublicKey().Serialize()
	missing := !w.parMode && w.stillBroken(i, "prop")
	sig, root, err := w.km.SignBeaconObject(obj, phase0.Domain{}, pk, spectypes.DomainProposer)
	if err != nil || len(sig) == 0 {
		return fmt.Sprintf("blk(%d) refused", slot)
	}
	if !w.parMode {
		w.d.Probe("block-signed")
	}
	if missing {
		w.d.Violate("signed-without-protection-record", how, "share %d: block for slot %d was signed although its highest-proposal record is missing or unreadable", i, slot)
	}
	w.releasedBlk(i, root[:], slot, how)
	return fmt.Sprintf("blk(%d) SIGNED", slot)
}

// op executes one key-manager operation; returns a log string.
func (w *world) op(s sim.Step, how string) (res string) {
	// A panic inside the key manager (other than the simulator's own crash unwinding) takes the
	// node down: nothing is signed, which is what the statement asks for, so it is a diagnostic,
	// followed by a restart.
	defer func() {
		if r := recover(); r != nil {
			if c, ok := r.(sim.Crash); ok {
				panic(c)
			}
			w.d.Probe("diag-panic-in-key-manager")
			res = fmt.Sprintf("%s PANIC (node down, restarted): %.60s", s.Op, fmt.Sprint(r))
			w.fdb.At = 0
			if err := w.boot(); err != nil {
				w.d.Violate("restart-fails", "after-panic", "key manager cannot be reopened after a panic: %v", err)
			}
		}
	}()
	i := int(s.Arg(0)) % nShares
	sp := w.km.(ekm.StorageProvider)
	pk := shareKey(i).GetPublicKey().Serialize()
	switch s.Op {
	case "add":
		err := w.km.AddShare(shareKey(i))
		if err == nil {
			w.added[i] = true
			delete(w.broken, i) // a (re-)added share gets fresh records... only if it was absent
		}
		return fmt.Sprintf("add %d err=%v", i, err != nil)
	case "remove":
		err := w.km.RemoveShare(hex.EncodeToString(pk))
		if err == nil {
			delete(w.added, i)
			delete(w.broken, i)
		}
		return fmt.Sprintf("remove %d err=%v", i, err != nil)
	case "bump":
		err := sp.BumpSlashingProtection(pk)
		if err == nil {
			delete(w.broken, i)
		}
		return fmt.Sprintf("bump %d err=%v", i, err != nil)
	case "att":
		return fmt.Sprintf("share %d %s", i, w.signAtt(i, s.Arg(1), s.Arg(2), s.Arg(3), how))
	case "blk":
		return fmt.Sprintf("share %d %s", i, w.signBlk(i, s.Arg(1), s.Arg(2), how))
	}
	return "?"
}

// findRecord locates the protection record of share i directly in the inner database (by key
// suffix = share public key), without assuming the exact prefix layout.
// stillBroken re-reads the durable state: a record the simulator removed or corrupted counts as
// missing only while it is still absent / still the corrupted bytes. An add / bump that was
// interrupted or failed after it had rewritten the record has legitimately repaired it.
func (w *world) stillBroken(i int, what string) bool {
	if w.broken[i] != what {
		return false
	}
	marker := map[string]string{"att": "highest_att", "prop": "highest_prop"}[what]
	pk := shareKey(i).GetPublicKey().Serialize()
	intact := false
	_ = w.inner.GetAll(nil, func(_ int, o basedb.Obj) error {
		if bytes.Contains(o.Key, []byte(marker)) && bytes.HasSuffix(o.Key, pk) && !bytes.Equal(o.Value, []byte{0xde, 0xad}) {
			intact = true
		}
		return nil
	})
	if intact {
		delete(w.broken, i)
		w.d.Probe("broken-record-rewritten-by-interrupted-operation")
	}
	return !intact
}

func (w *world) findRecord(i int, marker string) (key []byte) {
	pk := shareKey(i).GetPublicKey().Serialize()
	_ = w.inner.GetAll(nil, func(_ int, o basedb.Obj) error {
		if bytes.Contains(o.Key, []byte(marker)) && bytes.HasSuffix(o.Key, pk) {
			key = append([]byte(nil), o.Key...)
		}
		return nil
	})
	return key
}

func run(t *testing.T, d *sim.D) {
	if d.Cfg.Get("par", 0) == 1 {
		runPar(t, d)
		return
	}
	synctest.Test(t, func(t *testing.T) {
		gen0 := time.Unix(int64(net.Beacon.MinGenesisTime()), 0)
		time.Sleep(time.Until(gen0.Add(time.Duration(1000+d.Cfg.Get("epoch0", 0)) * 32 * 12 * time.Second)))
		t0 := time.Now()
		w := &world{d: d, atts: map[int][]attRec{}, blks: map[int][]blkRec{}, added: map[int]bool{}, broken: map[int]string{}}
		if d.Cfg.Get("badger", 0) == 1 {
			db, err := kv.NewInMemory(logger, basedb.Options{})
			if err != nil {
				panic(err)
			}
			w.inner = db
			defer db.Close()
		} else {
			w.inner = sim.NewMemDB()
		}
		if err := w.boot(); err != nil {
			d.Discard = "boot: " + err.Error()
			return
		}
		gen := func(r *sim.Rand) *sim.Step {
			if len(d.Steps) >= int(d.Cfg.Get("steps", 30)) {
				return nil
			}
			if d.Cfg.Get("warm", 0) == 1 && len(d.Steps) <= nShares {
				// warm start: register the shares, then let an epoch pass (a fresh share may only sign
				// for targets above the epoch it was added in)
				if len(d.Steps) < nShares {
					return &sim.Step{Op: "add", A: []int64{int64(len(d.Steps))}}
				}
				return &sim.Step{Op: "advance", A: []int64{int64(33 + r.Intn(40))}}
			}
			i := int64(r.Intn(nShares))
			switch r.Weighted(5, 2, 2, 14, 8, 6, 3, int(d.Cfg.Get("w_fault", 3)), int(d.Cfg.Get("w_break", 1)), int(d.Cfg.Get("w_par", 2))) {
			case 0:
				return &sim.Step{Op: "add", A: []int64{i}}
			case 1:
				return &sim.Step{Op: "remove", A: []int64{i}}
			case 2:
				return &sim.Step{Op: "bump", A: []int64{i}}
			case 3:
				return &sim.Step{Op: "att", A: []int64{i, int64(r.Intn(3)), int64(r.Weighted(6, 2, 1, 1)), int64(r.Intn(3))}}
			case 4:
				return &sim.Step{Op: "blk", A: []int64{i, int64(r.Weighted(6, 2, 1)), int64(r.Intn(4))}}
			case 5:
				if r.Chance(0.35) { // exactly to the first slot of the next epoch: where "current slot" and "last elapsed slot" are in different epochs
					return &sim.Step{Op: "advance", A: []int64{int64(32 - uint64(slotNow())%32)}}
				}
				return &sim.Step{Op: "advance", A: []int64{int64([]int{1, 1, 2, 31, 32, 33, 64, 100}[r.Intn(8)])}}
			case 6:
				return &sim.Step{Op: "restart"}
			case 7:
				// the next operation is interrupted at its k-th storage call
				ops := []string{"add", "remove", "bump", "att", "blk"}
				inner := &sim.Step{Op: ops[r.Weighted(3, 2, 2, 5, 4)], A: []int64{i, int64(r.Intn(3)), int64(r.Intn(2)), int64(r.Intn(3))}}
				return &sim.Step{Op: "fault", A: append([]int64{int64(1 + r.Intn(9)), int64(1 + r.Intn(4))}, inner.A...), S: []string{inner.Op}}
			case 8:
				return &sim.Step{Op: "break", A: []int64{i, int64(r.Intn(4))}}
			default:
				return &sim.Step{Op: "par", A: []int64{i, int64(r.Intn(3)), int64(r.Intn(3)), int64(r.U64() >> 1)}}
			}
		}
		for {
			s, ok := d.Next(gen)
			if !ok {
				break
			}
			switch s.Op {
			case "advance":
				time.Sleep(time.Duration(s.Arg(0)) * 12 * time.Second)
				d.Logf("advance %d slots -> epoch %d slot %d", s.Arg(0), epochNow(), slotNow())
			case "restart":
				d.Fault("restart")
				if err := w.boot(); err != nil {
					d.Violate("restart-fails", "boot", "key manager cannot be reopened on its database: %v", err)
				}
				d.Logf("restart")
			case "fault":
				inner := sim.Step{Op: s.Str(0), A: s.A[2:]}
				w.fdb.At, w.fdb.Mode = w.fdb.Calls+int(s.Arg(0)), int(s.Arg(1))%5
				var res string
				crash := sim.RunToCrash(func() { res = w.op(inner, "under-fault") })
				fired := w.fdb.Fired != ""
				w.fdb.At, w.fdb.Fired = 0, ""
				kind := []string{"none", "crash-before", "crash-after", "storage-error", "reads-keep-failing"}[int(s.Arg(1))%5]
				if crash != nil {
					d.Fault(kind)
					d.Logf("%s in %s at storage call %d (%s) -> restart", kind, inner.Op, s.Arg(0), crash.Op)
					if err := w.boot(); err != nil {
						d.Violate("restart-fails", "after-crash", "key manager cannot be reopened after a crash in %s: %v", inner.Op, err)
					}
				} else {
					if fired {
						d.Fault(kind)
					}
					d.Logf("%s (fault %s armed at call +%d fired=%v)", res, kind, s.Arg(0), fired)
				}
			case "break":
				i := int(s.Arg(0)) % nShares
				marker, what := "highest_att", "att"
				if s.Arg(1)%2 == 1 {
					marker, what = "highest_prop", "prop"
				}
				if key := w.findRecord(i, marker); key != nil {
					if s.Arg(1) < 2 {
						_ = w.inner.Delete(nil, key)
						d.Fault("protection-record-deleted")
					} else {
						_ = w.inner.Set(nil, key, []byte{0xde, 0xad})
						d.Fault("protection-record-corrupted")
					}
					w.broken[i] = what
					d.Logf("break share %d %s mode=%d", i, what, s.Arg(1))
				}
			case "par":
				w.parallel(s)
			default:
				d.Logf("%s", w.op(s, "sequential"))
			}
			d.State("km", s.Op, w.abs())
			if d.V != nil {
				break
			}
		}
		d.SimTime = time.Since(t0)
		n := 0
		for _, a := range w.atts {
			n += len(a)
		}
		for _, b := range w.blks {
			n += len(b)
		}
		d.Nontriv = n >= 2
	})
}

func (w *world) abs() string {
	var parts []string
	for i := 0; i < nShares; i++ {
		parts = append(parts, fmt.Sprintf("%v/%d/%d/%s", w.added[i], len(w.atts[i]), len(w.blks[i]), w.broken[i]))
	}
	sort.Strings(parts)
	return strings.Join(parts, ",")
}

// parallel: regime C — two signing requests for one share as real goroutines that park at every
// storage call; the scheduler (this goroutine) decides who runs next from the step's sub-seed and
// recognises a goroutine blocked on a lock held by the parked one from its stack state.
func (w *world) parallel(s sim.Step) {
	d := w.d
	i := int(s.Arg(0)) % nShares
	r := sim.NewRand(uint64(s.Arg(3)))
	// Two requests of the SAME kind for ONE share are never issued together: the dependency's
	// SimpleSigner.lock waits for the per-account lock while holding its map lock, which unlock needs,
	// so they deadlock (observed: the run hangs); goroutines stuck on a mutex cannot be abandoned inside
	// a synctest bubble. ssv itself serialises signing per role, and a deadlock is outside C04's
	// statement. Explored: attestation || block on one share, and same-kind requests on two shares.
	var reqs []sim.Step
	if s.Arg(1)%2 == 0 {
		reqs = []sim.Step{{Op: "att", A: []int64{int64(i), 0, 0, 1}}, {Op: "blk", A: []int64{int64(i), 0, 2}}}
	} else if s.Arg(2)%2 == 0 {
		reqs = []sim.Step{{Op: "att", A: []int64{int64(i), 0, 0, 1}}, {Op: "att", A: []int64{int64((i + 1) % nShares), 0, 0, 2}}}
	} else {
		reqs = []sim.Step{{Op: "blk", A: []int64{int64(i), 0, 1}}, {Op: "blk", A: []int64{int64((i + 1) % nShares), 0, 2}}}
	}
	const (
		stNew = iota
		stParked
		stRunning
		stBlocked
		stDone
	)
	type actor struct {
		gate  chan struct{}
		state int
		res   string
		gid   string
	}
	acts := []*actor{{gate: make(chan struct{})}, {gate: make(chan struct{})}}
	var mu sync.Mutex
	byGid := map[string]*actor{}
	w.fdb.Yield = func(op string) {
		mu.Lock()
		a := byGid[goid()]
		if a == nil { // not one of the two requests (cannot happen: everything else is idle)
			mu.Unlock()
			return
		}
		a.state = stParked
		mu.Unlock()
		<-a.gate
	}
	started := make(chan struct{}, 2)
	for k := range acts {
		go func(k int) {
			a := acts[k]
			mu.Lock()
			a.gid = goid()
			byGid[a.gid] = a
			mu.Unlock()
			started <- struct{}{}
			<-a.gate
			res := w.op(reqs[k], "concurrent")
			mu.Lock()
			a.res, a.state = res, stDone
			mu.Unlock()
		}(k)
	}
	<-started
	<-started
	settle := func() { // wait until no actor is running: each is parked, done or blocked on a lock
		for spin := 0; spin < 5000000; spin++ {
			busy := false
			mu.Lock()
			for _, a := range acts {
				if a.state == stRunning || a.state == stBlocked {
					if lockBlocked(a.gid) {
						a.state = stBlocked
					} else {
						a.state = stRunning
						busy = true
					}
				}
			}
			mu.Unlock()
			if !busy {
				return
			}
			runtime.Gosched()
		}
		d.Discard = "scheduler lost a goroutine"
	}
	for it := 0; it < 400 && d.Discard == ""; it++ {
		var cand []int
		blocked, done := 0, 0
		mu.Lock()
		for k, a := range acts {
			switch a.state {
			case stNew, stParked:
				cand = append(cand, k)
			case stBlocked:
				blocked++
			case stDone:
				done++
			}
		}
		mu.Unlock()
		if done == len(acts) {
			break
		}
		if len(cand) == 0 {
			if blocked > 0 {
				d.Probe("diag-deadlock-in-signer")
			}
			break
		}
		if blocked > 0 {
			d.Probe("lock-blocked-observed")
		}
		k := cand[r.Intn(len(cand))]
		mu.Lock()
		acts[k].state = stRunning
		mu.Unlock()
		acts[k].gate <- struct{}{}
		settle()
	}
	w.fdb.Yield = nil
	// let parked goroutines run to the end without further scheduling (deadlocked ones are abandoned)
	for _, a := range acts {
		mu.Lock()
		waiting := a.state == stParked || a.state == stNew
		if waiting {
			a.state = stRunning
		}
		mu.Unlock()
		if waiting {
			a.gate <- struct{}{}
		}
	}
	settle()
	d.Fault("concurrent-signing")
	res := []string{acts[0].res, acts[1].res}
	d.Logf("par share %d [%s | %s]", i, res[0], res[1])
}

func goid() string {
	b := make([]byte, 64)
	b = b[:runtime.Stack(b, false)]
	f := strings.Fields(string(b))
	if len(f) > 1 {
		return f[1]
	}
	return "?"
}

// lockBlocked reports whether goroutine gid is waiting for a mutex (state read from the runtime).
func lockBlocked(gid string) bool {
	buf := make([]byte, 1<<16)
	buf = buf[:runtime.Stack(buf, true)]
	for _, blk := range strings.Split(string(buf), "\n\n") {
		if strings.HasPrefix(blk, "goroutine "+gid+" [") {
			head := blk[:strings.Index(blk, "]")]
			return strings.Contains(head, "Mutex") || strings.Contains(head, "semacquire") || strings.Contains(head, "sync.")
		}
	}
	return false
}

func genConfig(r *sim.Rand, tier string) sim.Config {
	c := sim.Config{"steps": int64(15 + r.Intn(45)), "epoch0": int64(r.Intn(5000)), "builder": int64(r.Intn(2)), "badger": int64(r.Weighted(5, 1)),
		"w_fault": int64(r.Intn(6)), "w_break": int64(r.Intn(3)), "w_par": 0, "warm": int64(r.Weighted(1, 3))}
	if r.Intn(5) == 0 { // one run in five is the concurrent-signing scenario (par.go, outside the bubble)
		c["par"], c["steps"] = 1, int64(6+r.Intn(14))
	}
	// w_par stays 0: the in-bubble concurrent step is not used (a deadlocked signer cannot be abandoned
	// inside a synctest bubble); concurrency is explored by the separate par runs above (par.go).
	if tier == "thorough" && c["par"] != 1 { // concurrent runs stay short: every deadlock leaks two goroutines
		c["steps"] = int64(15 + r.Intn(120))
	}
	return c
}

var Specs = map[string]*sim.Spec{
	"C04": {Sim: "ekmsim", GenConfig: genConfig, Run: run,
		Real:        []string{"ekm.NewETHKeyManagerSigner: AddShare, RemoveShare, BumpSlashingProtection, SignBeaconObject (attestations, full and blinded blocks)", "ekm signer storage (highest attestation / proposal records, wallet, accounts)", "github.com/bloxapp/eth2-key-manager SimpleSigner + NormalProtection + HD wallet", "storage/kv in-memory Badger in 1 of 6 runs"},
		Stub:        []string{"clock (synctest bubble; advances only by explicit steps)", "database engine sim.MemDB in 5 of 6 runs, always behind the fault-injecting wrapper", "callers (the simulator issues the key-manager calls the event handler and the runners would issue)"},
		Rule:        "seeded histories of {add share, remove share, bump (reactivation), sign attestation(source,target<=clock), sign block(slot<=clock), advance clock, restart on the same database, operation interrupted at its k-th storage call by crash-before / crash-after / storage error then restart, protection record deleted or corrupted, two concurrent signing requests for one share interleaved at every storage call}; oracle over the whole life of each share: no two released attestations with equal target and different root, no surround pair, no two different blocks for one slot, no signature while the record is missing/unreadable. Non-trivial: >=2 signatures released; distinct = hash of (op, per-share (added, #attestations, #blocks, broken)) sequence.",
		Assumptions: []string{"attestation targets and block slots are not beyond the clock at signing time (as duties are)", "the clock never goes backwards", "durable state = committed database writes", "a deadlock between concurrent signing requests (eth2-key-manager SimpleSigner.lock/unlock, any two overlapping same-kind requests for one share) is a diagnostic only: nothing is signed, which is what the statement asks for", "concurrent runs (1 in 5): clock handed to the key manager through its BeaconNetwork dependency, MemDB, no storage faults"}},
}
