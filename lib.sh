# sourced by setup.sh / run.sh
export GOFLAGS=-mod=mod GOPROXY=off GOSUMDB=off GOTOOLCHAIN=local
export GO=${GO:-/opt/veriftools/go1.26.8/bin/go}
[ -x "$GO" ] || GO=$(command -v go1.26.8)
VERIF_DIR=$(cd "$(dirname "${BASH_SOURCE[0]}")" && pwd)
VERIF_REPO=${VERIF_REPO:-/repo}
BUILD=$VERIF_DIR/.build
# a check pointed at another tree (VERIF_REPO=<scratch copy>, sensitivity runs) gets its own module
# file, binaries, evidence and replays, so that it can run beside checks of /repo
if [ "$VERIF_REPO" = /repo ]; then
  MODF=$VERIF_DIR/harness/go.mod; BIN=$BUILD/bin; OUT=$VERIF_DIR
else
  ALT=$BUILD/alt-$(echo "$VERIF_REPO" | cksum | cut -d' ' -f1)
  MODF=$ALT/go.mod; BIN=$ALT/bin; OUT=$ALT/out
  mkdir -p "$ALT" "$OUT"
fi
MODCACHE=$($GO env GOMODCACHE)

prep_quic() {
  # patched copies of two third-party modules (never executed by anything we simulate)
  local q=$BUILD/quic-go t=$BUILD/qtls-go1-20
  if [ ! -f "$q/.done" ]; then
    rm -rf "$q"; mkdir -p "$BUILD"
    cp -r "$MODCACHE/github.com/quic-go/quic-go@v0.33.0" "$q"; chmod -R u+w "$q"
    cp "$VERIF_DIR/patches/quic-go_internal_qtls_go121.go" "$q/internal/qtls/go121.go"
    touch "$q/.done"
  fi
  if [ ! -f "$t/.done" ]; then
    rm -rf "$t"; mkdir -p "$BUILD"
    cp -r "$MODCACHE/github.com/quic-go/qtls-go1-20@v0.2.3" "$t"; chmod -R u+w "$t"
    cp "$VERIF_DIR/patches/qtls-go1-20_unsafe.go" "$t/unsafe.go"
    touch "$t/.done"
  fi
}

gen_gomod() {
  # harness go.mod = /repo/go.mod (same require/replace) + replaces; regenerated at every build
  local out=$MODF
  {
    echo "module verifharness"; echo; echo "go 1.26.8"; echo
    sed -e '/^module /d' -e '/^go [0-9]/d' -e '/^toolchain /d' "$VERIF_REPO/go.mod"
    echo
    echo "require github.com/bloxapp/ssv v0.0.0"
    echo "require github.com/anishathalye/porcupine v1.3.0"
    echo "replace github.com/bloxapp/ssv => $VERIF_REPO"
    echo "replace github.com/quic-go/quic-go => $BUILD/quic-go"
    echo "replace github.com/quic-go/qtls-go1-20 => $BUILD/qtls-go1-20"
  } > "$out.tmp"
  cmp -s "$out.tmp" "$out" 2>/dev/null && rm "$out.tmp" || mv "$out.tmp" "$out"
  # go.sum: repo's + porcupine
  local sum=${MODF%.mod}.sum
  { cat "$VERIF_REPO/go.sum"; cat "$VERIF_DIR/patches/extra.go.sum"; } > "$sum.tmp"
  cmp -s "$sum.tmp" "$sum" 2>/dev/null && rm "$sum.tmp" || mv "$sum.tmp" "$sum"
  # -modfile still needs a go.mod in the module root to find the root
  [ -f "$VERIF_DIR/harness/go.mod" ] || { cp "$MODF" "$VERIF_DIR/harness/go.mod"; cp "$sum" "$VERIF_DIR/harness/go.sum"; }
}
